package main

import "strconv"

func itoa(i int) string { return strconv.Itoa(i) }
