package main

// Routing core: C01 C02 C07 C08 C09 C10 C12.
//
// A case is a registration history H over abstract routes (the vocabulary of
// spec/RouteTree.tla), Headers() calls, Name() calls, requests and URLPath
// calls. It is executed either on the internal route.Tree ("tree") or through
// the public flamego.Flame ("flame"); every real answer is recorded as one
// event of the ndjson trace that TLC validates against RouteTreeTrace.tla.

import (
	"encoding/json"
	"fmt"
	"io"
	"net/http"
	"net/http/httptest"
	"net/url"
	"os"
	"regexp"
	"sort"
	"strings"

	"github.com/flamego/flamego"
	"github.com/flamego/flamego/internal/route"
)

type aEl struct {
	Ty string `json:"ty"`
	V  string `json:"v"`
	G  int    `json:"g"`
	Re string `json:"re"`
}

type aSeg struct {
	K     string   `json:"k"`
	T     string   `json:"t"`
	Opt   bool     `json:"opt"`
	Binds []string `json:"binds"`
	Cap   int      `json:"cap"`
	Els   []aEl    `json:"els"`
	Bad   bool     `json:"bad"`
	Grp   bool     `json:"grp"`
}

type aRoute struct {
	Segs []aSeg `json:"segs"`
	Gram bool   `json:"gram"`
	Raw  string `json:"raw,omitempty"` // concrete text when outside the grammar
}

type hdrC struct {
	Name string `json:"name"`
	Expr string `json:"expr"`
	Sp   int    `json:"sp,omitempty"` // how the name is spelled in the Headers() call: 1 canonical, 2 lower case (0: chosen by position)
}

type hEntry struct {
	M    string `json:"m"`
	R    aRoute `json:"r"`
	Ok   bool   `json:"ok"`
	Hdr  []hdrC `json:"hdr"`
	Call int    `json:"call"`
	Ck   string `json:"ck"` // kind of the Flame-level call: "" single method, "routes" Routes("M1,M2"), "any" Any(), "autohead" Get() under AutoHead
}

type hop struct {
	Reg int    `json:"reg"`
	Hdr []hdrC `json:"hdr"`
}

type treeReq struct {
	M    string            `json:"m"`
	Raw  string            `json:"raw"` // raw request path, bytes encoded by encBytes
	H    map[string]string `json:"h,omitempty"`
	Nest string            `json:"nest,omitempty"` // a middleware serves this path as a nested request through the same Flame first
}

type urlCall struct {
	Reg     int        `json:"reg"`     // registration whose name is used (0 = unknown name)
	Vals    [][]string `json:"vals"`    // pairs
	WithOpt bool       `json:"withopt"` //
}

type nameCall struct {
	Reg  int    `json:"reg"`
	Name string `json:"name"`
}

type capEl struct {
	Ty   string   `json:"ty"`
	Cs   []string `json:"cs"`
	Name string   `json:"name"`
	Lang string   `json:"lang"`
}

type treeCase struct {
	// character-level capture cases emitted by spec/Capture.tla
	Els    []capEl    `json:"els,omitempty"`
	W      string     `json:"w,omitempty"`
	Splits [][]string `json:"splits,omitempty"`

	Fam   string                       `json:"fam"`
	H     []hEntry                     `json:"H"`
	Hops  []hop                        `json:"hops"`
	Wins  map[string]map[string]string `json:"wins,omitempty"`
	Reqs  []treeReq                    `json:"reqs,omitempty"`
	URLs  []urlCall                    `json:"urls,omitempty"`
	Names []nameCall                   `json:"names,omitempty"`
	Via   string                       `json:"via,omitempty"`
	Warm  int                          `json:"warm,omitempty"` // 2: requests are served BETWEEN the set-up calls too (unjudged): whatever the first requests make the router remember, later set-up calls count all the same
}

func (s aSeg) text() string {
	if s.Opt {
		return "/?" + s.T
	}
	return "/" + s.T
}

func (r aRoute) text() string {
	if !r.Gram && r.Raw != "" {
		return r.Raw
	}
	if !r.Gram {
		return "/a{"
	}
	var b strings.Builder
	for _, s := range r.Segs {
		b.WriteString(s.text())
	}
	return b.String()
}

// ---------------------------------------------------------------- oracle

// pctDecode is an independent percent-decoder: every %XX is decoded; if any
// escape is malformed the value is left raw (ok=false).
func pctDecode(s string) (string, bool) {
	var b strings.Builder
	for i := 0; i < len(s); i++ {
		c := s[i]
		if c != '%' {
			b.WriteByte(c)
			continue
		}
		if i+2 > len(s)-1 {
			return s, false
		}
		h, ok1 := unhex(s[i+1])
		l, ok2 := unhex(s[i+2])
		if !ok1 || !ok2 {
			return s, false
		}
		b.WriteByte(h<<4 | l)
		i += 2
	}
	return b.String(), true
}

func unhex(c byte) (byte, bool) {
	switch {
	case '0' <= c && c <= '9':
		return c - '0', true
	case 'a' <= c && c <= 'f':
		return c - 'a' + 10, true
	case 'A' <= c && c <= 'F':
		return c - 'A' + 10, true
	}
	return 0, false
}

var reCache = map[string]*regexp.Regexp{}

func fullRe(expr string) *regexp.Regexp {
	if r, ok := reCache[expr]; ok {
		return r
	}
	r, err := regexp.Compile(`^(?:` + expr + `)$`)
	if err != nil {
		r = nil
	}
	reCache[expr] = r
	return r
}

// splitsOf enumerates every way to cut s into the elements of the segment:
// literals match literally, a bind matches its own expression in full (a bare
// {x} inside a multi-element segment is a non-empty piece). Independent of the
// regexp flamego assembles. At most max splits are returned.
func splitsOf(els []aEl, s string, max int) [][]string {
	var out [][]string
	var rec func(i int, pos int, acc []string)
	rec = func(i int, pos int, acc []string) {
		if len(out) >= max {
			return
		}
		if i == len(els) {
			if pos == len(s) {
				cp := make([]string, len(acc))
				copy(cp, acc)
				out = append(out, cp)
			}
			return
		}
		e := els[i]
		if e.Ty == "lit" {
			if strings.HasPrefix(s[pos:], e.V) {
				rec(i+1, pos+len(e.V), acc)
			}
			return
		}
		expr := e.Re
		if expr == "" {
			expr = ".+"
		}
		re := fullRe(expr)
		if re == nil {
			return
		}
		for end := len(s); end >= pos; end-- {
			if re.MatchString(s[pos:end]) {
				rec(i+1, end, append(acc, s[pos:end]))
			}
		}
	}
	rec(0, 0, nil)
	return out
}

// encBytes / decBytes carry arbitrary bytes through JSON and TLC strings:
// printable ASCII except '\\' and '"' is kept, every other byte becomes \xNN.
// Both the raw value and its image are only ever compared for equality by the
// specification, and the encoding is injective.
func encBytes(s string) string {
	clean := true
	for i := 0; i < len(s); i++ {
		if s[i] < 0x20 || s[i] > 0x7e || s[i] == '\\' || s[i] == '"' {
			clean = false
			break
		}
	}
	if clean {
		return s
	}
	var b strings.Builder
	for i := 0; i < len(s); i++ {
		c := s[i]
		if c < 0x20 || c > 0x7e || c == '\\' || c == '"' {
			fmt.Fprintf(&b, "\\x%02X", c)
		} else {
			b.WriteByte(c)
		}
	}
	return b.String()
}

func decBytes(s string) string {
	if !strings.Contains(s, `\x`) {
		return s
	}
	var b strings.Builder
	for i := 0; i < len(s); i++ {
		if s[i] == '\\' && i+3 < len(s) && s[i+1] == 'x' {
			h, ok1 := unhex(s[i+2])
			l, ok2 := unhex(s[i+3])
			if ok1 && ok2 {
				b.WriteByte(h<<4 | l)
				i += 3
				continue
			}
		}
		b.WriteByte(s[i])
	}
	return b.String()
}

// ---------------------------------------------------------------- execution

type treeExec struct {
	via    string
	c      *treeCase
	accept []bool // real acceptance per H entry
	// tree
	parser *route.Parser
	trees  map[string]route.Tree
	leafOf map[string]map[string]int // method -> route text -> reg
	leaves map[int]route.Leaf
	// flame
	f        *flamego.Flame
	chains   int
	routes   map[int]*flamego.Route // reg -> handle returned by the call
	named    map[int]string
	lastCall map[int]*flamego.Route
	curHdr   map[int][]hdrC // call -> constraints in force
	serveN   int            // requests served so far (drives the variants below)
	emptyHdr int            // how a header whose value is "" is sent: 0 left out, 1 present with "", 2 present with no values
	last     serveOut       // what the handler of the current request observed (out of band: lossless, works for HEAD)
}

type serveOut struct {
	reg       int
	params    map[string]string
	panicked  bool
	chains    int
	rbWith    string
	rbWithout string
	rbOK      bool // the URL could be rebuilt (the route has a name / the leaf is at hand)
	status    int
}

var reFailMethod = regexp.MustCompile(`with method ([A-Z]+):`)

var nineMethods = []string{"GET", "POST", "PUT", "DELETE", "PATCH", "OPTIONS", "HEAD", "CONNECT", "TRACE"}

func newTreeExec(via string, c *treeCase) *treeExec {
	x := &treeExec{via: via, c: c, leafOf: map[string]map[string]int{}, leaves: map[int]route.Leaf{},
		routes: map[int]*flamego.Route{}, named: map[int]string{}, lastCall: map[int]*flamego.Route{}}
	if via == "tree" {
		p, err := route.NewParser()
		if err != nil {
			panic(err)
		}
		x.parser = p
		x.trees = map[string]route.Tree{}
		for _, m := range nineMethods {
			x.trees[m] = route.NewTree()
			x.leafOf[m] = map[string]int{}
		}
	} else {
		flamego.SetEnv(flamego.EnvTypeTest)
		x.f = flamego.NewWithLogger(io.Discard)
		// three separate Use calls (the middleware slice then has spare capacity): chain counter, a no-op, and a
		// middleware that serves a nested request through the same Flame before the chain goes on
		x.f.Use(func(c flamego.Context) {
			if c.Request().Header.Get("X-Sub") == "" {
				x.chains++
			}
		})
		x.f.Use(func(w http.ResponseWriter) {})
		x.f.Use(func(c flamego.Context) {
			p := c.Request().Header.Get("X-Nest")
			if p == "" || c.Request().Header.Get("X-Sub") != "" {
				return
			}
			sub := &http.Request{Method: "GET", URL: &url.URL{Path: decBytes(p)}, Header: http.Header{"X-Sub": {"1"}}, Proto: "HTTP/1.1", ProtoMajor: 1, ProtoMinor: 1, Host: "x"}
			x.f.ServeHTTP(httptest.NewRecorder(), sub)
			x.last = serveOut{} // what the nested request observed is not this request's outcome
		})
		switch len(c.H) % 3 {
		case 0:
			// a user-supplied not-found chain on every third case, the default http.NotFound otherwise ...
			x.f.NotFound(func(w http.ResponseWriter) {
				w.WriteHeader(404)
				_, _ = w.Write([]byte("not found"))
			})
		case 1:
			// ... or a not-found chain WITHOUT handlers of its own: the application middleware still runs, once
			x.f.NotFound()
		}
	}
	return x
}

func (x *treeExec) register(i int, e hEntry) (accepted bool, detail string) {
	text := e.R.text()
	reg := i + 1
	defer func() {
		if r := recover(); r != nil {
			accepted = false
			detail = fmt.Sprint(r)
		}
	}()
	if x.via == "tree" {
		tr, ok := x.trees[e.M]
		if !ok {
			return false, "unknown method"
		}
		ast, err := x.parser.Parse(text)
		if err != nil {
			return false, "parse: " + err.Error()
		}
		leaf, err := route.AddRoute(tr, ast, func(http.ResponseWriter, *http.Request, route.Params) {})
		if err != nil {
			return false, err.Error()
		}
		x.leafOf[e.M][leaf.Route()] = reg
		x.leaves[reg] = leaf
		return true, ""
	}
	h := func(c flamego.Context) {
		o := serveOut{reg: reg, params: map[string]string{}}
		for k, v := range c.Params() {
			o.params[k] = v
		}
		name := x.nameFor(reg)
		if name != "" {
			pairs := []string{}
			for k, v := range c.Params() {
				pairs = append(pairs, k, v)
			}
			func() {
				defer func() { _ = recover() }()
				o.rbWithout = c.URLPath(name, pairs...)
				o.rbWith = c.URLPath(name, append([]string{"withOptional", "true"}, pairs...)...)
				o.rbOK = true
			}()
		}
		x.last = o
		// a handler may use the Params map it was handed as scratch space: the map belongs to this request alone,
		// so nothing written here may show up in any other request
		c.Params()["_scratch"] = "left-by-" + itoa(reg)
		c.ResponseWriter().WriteHeader(200)
		_, _ = c.ResponseWriter().Write([]byte("reg " + itoa(reg)))
	}
	r := x.f.Route(e.M, text, []flamego.Handler{h})
	x.routes[reg] = r
	x.lastCall[e.Call] = r
	if len(x.c.Names) == 0 && len(x.c.URLs) == 0 {
		// name every route so that handlers can rebuild their own URL (inverse law of C12)
		r.Name("r" + itoa(reg))
		x.named[reg] = "r" + itoa(reg)
	}
	return true, ""
}

func (x *treeExec) nameFor(reg int) string { return x.named[reg] }

// methodNamedIn returns the index of the only entry whose method occurs in msg as a word of its own, or -1.
func methodNamedIn(msg string, es []hEntry) int {
	found := -1
	for k, e := range es {
		if e.M == "" {
			continue
		}
		re, err := regexp.Compile(`(^|[^A-Za-z])` + regexp.QuoteMeta(e.M) + `($|[^A-Za-z])`)
		if err != nil || !re.MatchString(msg) {
			continue
		}
		if found >= 0 {
			return -1
		}
		found = k
	}
	return found
}

// registerMulti registers one route for several methods through a single Routes() call.
func (x *treeExec) registerMulti(i int, es []hEntry) (accepted bool, detail string) {
	defer func() {
		if r := recover(); r != nil {
			accepted = false
			detail = fmt.Sprint(r)
		}
	}()
	ms := make([]string, len(es))
	regOf := map[string]int{}
	for k, e := range es {
		ms[k] = e.M
		regOf[e.M] = i + k + 1
	}
	h := func(c flamego.Context) {
		reg := regOf[c.Request().Method]
		o := serveOut{reg: reg, params: map[string]string{}}
		for k, v := range c.Params() {
			o.params[k] = v
		}
		if name := x.nameFor(reg); name != "" {
			pairs := []string{}
			for k, v := range c.Params() {
				pairs = append(pairs, k, v)
			}
			func() {
				defer func() { _ = recover() }()
				o.rbWithout = c.URLPath(name, pairs...)
				o.rbWith = c.URLPath(name, append([]string{"withOptional", "true"}, pairs...)...)
				o.rbOK = true
			}()
		}
		x.last = o
		c.Params()["_scratch"] = "left-by-" + itoa(reg)
		c.ResponseWriter().WriteHeader(200)
	}
	var r *flamego.Route
	if es[0].Ck == "any" {
		r = x.f.Any(es[0].R.text(), h) // the handle holds the leaves of all nine methods
	} else if es[0].Ck == "autohead" {
		x.f.AutoHead(true) // Get() registers HEAD as well and returns one handle for both
		func() {
			defer x.f.AutoHead(false)
			r = x.f.Get(es[0].R.text(), h)
		}()
	} else {
		r = x.f.Routes(es[0].R.text(), strings.Join(ms, ","), h) // the handle holds the LAST method's leaf only
	}
	for k := range es {
		x.routes[i+k+1] = r
	}
	x.lastCall[es[0].Call] = r
	if len(x.c.Names) == 0 && len(x.c.URLs) == 0 {
		r.Name("r" + itoa(i+1))
		for k := range es {
			x.named[i+k+1] = "r" + itoa(i+1)
		}
	}
	return true, ""
}

func (x *treeExec) serveNested(m, raw string, hdr map[string]string, nest string) serveOut {
	if nest == "" || x.via != "flame" {
		return x.serve(m, raw, hdr)
	}
	h2 := map[string]string{"X-Nest": nest}
	for k, v := range hdr {
		h2[k] = v
	}
	return x.serve(m, raw, h2)
}

func (x *treeExec) serve(m, raw string, hdr map[string]string) (o serveOut) {
	defer func() {
		if r := recover(); r != nil {
			o.panicked = true
			o.params = map[string]string{"route": "", "_panic": encBytes(fmt.Sprint(r))}
		}
	}()
	h := http.Header{}
	for k, v := range hdr {
		if k == "_" {
			continue
		}
		if v != "" {
			h.Set(k, v)
			if x.serveN%3 == 2 && k != "X-Nest" {
				// the header is sent in two lines; the second value is one that no constraint of the pool is about
				// (a value that is matched stays matched, one that is not stays unmatched)
				h[http.CanonicalHeaderKey(k)] = []string{v, "##"}
			}
		} else if x.emptyHdr == 1 {
			h[http.CanonicalHeaderKey(k)] = []string{""} // the header is PRESENT with an empty value
		} else if x.emptyHdr == 2 {
			h[http.CanonicalHeaderKey(k)] = []string{} // the name is present with NO value at all
		}
	}
	x.serveN++
	if x.via == "tree" {
		o.chains = 1
		tr, ok := x.trees[m]
		if !ok {
			o.params = map[string]string{"route": ""}
			return
		}
		leaf, params, ok := tr.Match(raw, h)
		if !ok {
			o.params = map[string]string{"route": ""}
			return
		}
		o.reg = x.leafOf[m][leaf.Route()]
		o.params = map[string]string{}
		for k, v := range params {
			o.params[k] = v
		}
		o.rbWith = leaf.URLPath(params, true)
		o.rbWithout = leaf.URLPath(params, false)
		o.rbOK = true
		o.params["route"] = leaf.Route()
		return
	}
	x.chains = 0
	x.last = serveOut{}
	w := httptest.NewRecorder()
	req := &http.Request{Method: m, URL: &url.URL{Path: raw}, Header: h, Proto: "HTTP/1.1", ProtoMajor: 1, ProtoMinor: 1, Host: "x"}
	if len(h) == 0 && x.serveN%4 == 1 {
		// a hand-built request that has no header map at all (reading a nil map is fine, nobody may write into it)
		req.Header = nil
	}
	if x.serveN%3 == 0 {
		// the path as the client SENT it differed from the default encoding (net/http then keeps it in RawPath, e.g. a
		// redundantly escaped letter): routing and parameters are defined on URL.Path, the sent form is only a hint
		req.URL.RawPath = redundantEscape(raw)
	}
	x.f.ServeHTTP(w, req)
	o = x.last
	o.chains = x.chains
	o.status = w.Code
	if o.params == nil {
		o.params = map[string]string{}
	}
	if _, ok := o.params["route"]; !ok {
		o.params["route"] = ""
	}
	return
}

// oracle facts for one request
type facts struct {
	oskip  bool // the oracle gave up (very long input): only totality is judged
	p      []string
	dec    []string
	decok  []bool
	adm    [][]string
	splits [][]interface{}
	hadm   [][]string
}

func splitPath(raw string) []string {
	return strings.Split(strings.TrimLeft(raw, "/"), "/")
}

func (x *treeExec) factsFor(m, raw string, hdr map[string]string) facts {
	var fx facts
	segs := splitPath(raw)
	if len(segs) > 24 {
		fx.oskip = true
		segs = segs[:24]
	}
	for _, s := range segs {
		if len(s) > 300 {
			fx.oskip = true
		}
	}
	fx.adm = [][]string{}
	fx.splits = [][]interface{}{}
	fx.hadm = [][]string{}
	for _, s := range segs {
		d, ok := pctDecode(s)
		fx.p = append(fx.p, encBytes(s))
		fx.dec = append(fx.dec, encBytes(d))
		fx.decok = append(fx.decok, ok)
	}
	seen := map[string]bool{}
	hseen := map[string]bool{}
	for i, e := range x.c.H {
		if fx.oskip {
			break
		}
		if i >= len(x.accept) || !x.accept[i] || e.M != m {
			continue
		}
		for _, sg := range e.R.Segs {
			if sg.K != "R" {
				continue
			}
			for _, ps := range segs {
				key := sg.T + "\x00" + ps
				if seen[key] {
					continue
				}
				seen[key] = true
				sp := splitsOf(sg.Els, ps, 64)
				if len(sp) > 0 {
					fx.adm = append(fx.adm, []string{encBytes(sg.T), encBytes(ps)})
				}
				for _, one := range sp {
					vals := make([]string, len(one))
					for k, v := range one {
						d, _ := pctDecode(v)
						vals[k] = encBytes(d)
					}
					fx.splits = append(fx.splits, []interface{}{encBytes(sg.T), encBytes(ps), vals})
				}
			}
		}
	}
	// header facts over the constraints currently in force
	for _, hs := range x.curHdr {
		for _, hc := range hs {
			v := hdr[hc.Name]
			key := hc.Expr + "\x00" + v
			if hseen[key] {
				continue
			}
			hseen[key] = true
			re, err := regexp.Compile(hc.Expr)
			if err == nil && re.MatchString(v) {
				fx.hadm = append(fx.hadm, []string{hc.Expr, v})
			}
		}
	}
	return fx
}

// encRoute encodes every text of an abstract route with encBytes so that the texts the
// specification concatenates and compares are in the same alphabet as the recorded values.
func encRoute(r aRoute) aRoute {
	out := aRoute{Gram: r.Gram, Raw: encBytes(r.Raw)}
	for _, s := range r.Segs {
		s2 := s
		s2.T = encBytes(s.T)
		s2.Els = make([]aEl, len(s.Els))
		for i, e := range s.Els {
			e.V = encBytes(e.V)
			e.Re = encBytes(e.Re)
			s2.Els[i] = e
		}
		if s2.Binds == nil {
			s2.Binds = []string{}
		}
		out.Segs = append(out.Segs, s2)
	}
	if out.Segs == nil {
		out.Segs = []aSeg{}
	}
	return out
}

func encParams(p map[string]string) map[string]string {
	out := make(map[string]string, len(p))
	for k, v := range p {
		out[k] = encBytes(v)
	}
	return out
}

func hdrOrEmpty(h []hdrC) []hdrC {
	if h == nil {
		return []hdrC{}
	}
	return h
}

var treeUniv struct {
	Paths [][]string `json:"paths"`
}

var treeStats struct {
	Compared       int `json:"compared"`
	Equal          int `json:"equal"`
	Emitted        int `json:"emitted"`
	OracleChecked  int `json:"oracle_checked"`
	OracleMismatch int `json:"oracle_mismatch"`
}

var capLang = map[string]string{"ab+": "[ab]+", "ab1": "[ab]", "a|b": "a|b", "a?": "a?", "a": "a"}

// capToCase turns a Capture.tla case into an ordinary routing case: one route made of the one segment, one
// request, and cross-checks the harness' oracle splitter against the splits TLC computed declaratively.
func capToCase(c *treeCase, idx int) {
	var sg aSeg
	sg.K = "R"
	var t strings.Builder
	for i := 0; i < len(c.Els); i++ {
		e := c.Els[i]
		if e.Ty == "lit" {
			l := strings.Join(e.Cs, "")
			sg.Els = append(sg.Els, aEl{Ty: "lit", V: l})
			t.WriteString(l)
			continue
		}
		if e.Lang == "any+" {
			sg.Els = append(sg.Els, aEl{Ty: "bind", V: e.Name, G: 1})
			sg.Binds = append(sg.Binds, e.Name)
			t.WriteString("{" + e.Name + "}")
			continue
		}
		// adjacent regex binds are spelled as one parameter list or as separate elements (same language)
		t.WriteString("{" + e.Name + ": /" + capLang[e.Lang] + "/")
		sg.Els = append(sg.Els, aEl{Ty: "bind", V: e.Name, G: 1, Re: capLang[e.Lang]})
		sg.Binds = append(sg.Binds, e.Name)
		for idx%2 == 0 && i+1 < len(c.Els) && c.Els[i+1].Ty == "bind" && c.Els[i+1].Lang != "any+" {
			i++
			e2 := c.Els[i]
			t.WriteString(", " + e2.Name + ": /" + capLang[e2.Lang] + "/")
			sg.Els = append(sg.Els, aEl{Ty: "bind", V: e2.Name, G: 2, Re: capLang[e2.Lang]})
			sg.Binds = append(sg.Binds, e2.Name)
		}
		t.WriteString("}")
	}
	sg.T = t.String()
	c.H = []hEntry{{M: "GET", R: aRoute{Segs: []aSeg{sg}, Gram: true}, Ok: true, Hdr: []hdrC{}, Call: 1}}
	c.Hops = []hop{}
	c.Reqs = []treeReq{{M: "GET", Raw: "/" + c.W}}
	// oracle cross-check
	mine := map[string]bool{}
	for _, sp := range splitsOf(sg.Els, c.W, 4096) {
		mine[strings.Join(sp, "\x1f")] = true
	}
	theirs := map[string]bool{}
	for _, sp := range c.Splits {
		theirs[strings.Join(sp, "\x1f")] = true
	}
	treeStats.OracleChecked++
	if len(mine) != len(theirs) {
		treeStats.OracleMismatch++
	} else {
		for k := range mine {
			if !theirs[k] {
				treeStats.OracleMismatch++
				break
			}
		}
	}
	c.Els, c.Splits = nil, nil
}


func treeReplay(raw json.RawMessage, idx int, tr *traceWriter) {
	var c treeCase
	if err := json.Unmarshal(raw, &c); err != nil {
		panic(err)
	}
	if len(c.Els) > 0 {
		capToCase(&c, idx)
		b, _ := json.Marshal(c)
		raw = b
	}
	vias := []string{c.Via}
	if c.Via == "" || c.Via == "both" {
		vias = []string{"tree", "flame"}
	}
	needFlame := len(c.Hops) > 0 || len(c.Names) > 0 || len(c.URLs) > 0
	for _, e := range c.H {
		if e.M != "GET" {
			needFlame = true
		}
	}
	if needFlame {
		vias = []string{"flame"}
	}
	if c.Warm == 0 {
		c.Warm = 1 + (idx+len(c.H))%2
	}
	for _, via := range vias {
		c2 := c
		c2.Via = via
		var in interface{} = c2
		tr.emit(map[string]interface{}{"case": idx, "ev": "reset", "input": in, "nt": len(c.H) > 1, "via": via})
		x := newTreeExec(via, &c)
		x.run(tr)
	}
}

// warm serves a few requests in the middle of the set-up phase (nothing is recorded for them).
func (x *treeExec) warm(m string) {
	if x.c.Warm != 2 {
		return
	}
	defer func() { _ = recover() }()
	n := 0
	for _, rq := range x.c.Reqs {
		if n == 3 {
			break
		}
		x.serve(rq.M, decBytes(rq.Raw), rq.H)
		n++
	}
	if n == 0 && len(treeUniv.Paths) > 0 {
		for _, pi := range []int{0, len(treeUniv.Paths) / 2, len(treeUniv.Paths) - 1} {
			x.serve(m, "/"+strings.Join(treeUniv.Paths[pi], "/"), nil)
		}
	}
}

func (x *treeExec) run(tr *traceWriter) {
	c := x.c
	x.curHdr = map[int][]hdrC{}
	for i := 0; i < len(c.H); {
		e := c.H[i]
		j := i + 1
		for x.via == "flame" && j < len(c.H) && c.H[j].Call == e.Call {
			j++
		}
		if j-i > 1 {
			// one Flame-level call for several methods: Routes(path, "M1,M2", handler) returns ONE handle
			acc, detail := x.registerMulti(i, c.H[i:j])
			// Routes() registers method by method and panics at the first failure: the methods
			// before it are registered, the ones after it were never attempted (skipped).
			failAt := -1
			if !acc {
				failAt = i
				if m := reFailMethod.FindStringSubmatch(detail); m != nil {
					for k := i; k < j; k++ {
						if c.H[k].M == m[1] {
							failAt = k
						}
					}
				} else if k := methodNamedIn(detail, c.H[i:j]); k >= 0 {
					failAt = i + k // other wording: the one method of this call that the message names
				} else {
					failAt = -2 // failed before any method was tried (parse error): all rejected
				}
			}
			for k := i; k < j; k++ {
				a, skipped := acc, false
				if failAt >= 0 {
					a = k < failAt
					skipped = k > failAt
				} else if failAt == -2 {
					a = false
				}
				x.accept = append(x.accept, a)
				ck := c.H[k].Ck
				if ck == "" {
					ck = "routes"
				}
				tr.emit(map[string]interface{}{"ev": "AddRoute", "m": c.H[k].M, "r": encRoute(c.H[k].R), "accepted": a, "skipped": skipped,
					"call": e.Call, "ck": ck, "detail": encBytes(detail)})
			}
			i = j
			x.warm(e.M)
			continue
		}
		acc, detail := x.register(i, e)
		x.accept = append(x.accept, acc)
		tr.emit(map[string]interface{}{"ev": "AddRoute", "m": e.M, "r": encRoute(e.R), "accepted": acc, "skipped": false, "call": e.Call, "ck": "single", "detail": encBytes(detail)})
		i = j
		x.warm(e.M)
	}
	for _, n := range c.Names {
		if x.routes[n.Reg] == nil {
			continue // the registration was rejected: there is no handle to name
		}
		panicked := false
		func() {
			defer func() {
				if r := recover(); r != nil {
					panicked = true
				}
			}()
			x.routes[n.Reg].Name(n.Name)
		}()
		if !panicked {
			x.named[n.Reg] = n.Name
		}
		tr.emit(map[string]interface{}{"ev": "Name", "reg": n.Reg, "name": n.Name, "panicked": panicked})
	}
	for _, hp := range c.Hops {
		call := c.H[hp.Reg-1].Call
		h := x.lastCall[call]
		if h == nil {
			continue
		}
		pairs := []string{}
		for k, hc := range hp.Hdr {
			nm := hc.Name
			if hc.Sp == 2 || (hc.Sp == 0 && (call+k)%3 == 1) {
				nm = strings.ToLower(nm) // header names are case-insensitive: the constraint may be spelled any way
			}
			pairs = append(pairs, nm, hc.Expr)
		}
		x.warm("GET") // requests served before the constraints are (re-)specified ...
		h.Headers(pairs...)
		x.curHdr[call] = hp.Hdr
		tr.emit(map[string]interface{}{"ev": "Headers", "call": call, "hdr": hdrOrEmpty(hp.Hdr)})
	}
	emitServe := func(m, raw string, hdr map[string]string, o serveOut) {
		fx := x.factsFor(m, raw, hdr)
		hh := map[string]string{"_": ""}
		for k, v := range hdr {
			hh[k] = v
		}
		rawOut := raw
		if fx.oskip {
			rawOut = raw[:min(len(raw), 64)]
			fx.p, fx.dec, fx.decok = []string{""}, []string{""}, []bool{true}
			o.params = map[string]string{"route": o.params["route"]}
			o.rbWith, o.rbWithout = "", ""
		}
		tr.emit(map[string]interface{}{"ev": "Serve", "oskip": fx.oskip, "m": m, "raw": encBytes(rawOut), "p": fx.p, "h": hh,
			"dec": fx.dec, "decok": fx.decok, "adm": fx.adm, "splits": fx.splits, "hadm": fx.hadm,
			"reg": o.reg, "params": encParams(o.params), "panicked": o.panicked, "chains": o.chains,
			"rb_with": encBytes(o.rbWith), "rb_without": encBytes(o.rbWithout), "rbok": o.rbOK, "status": o.status})
		treeStats.Emitted++
	}
	// (1) the finite request universe of the model, pre-filtered by the P-outcome TLC computed
	if c.Wins != nil {
		sample := envInt("VERIF_SAMPLE", 16)
		prevRaw := ""
		ms := make([]string, 0, len(c.Wins))
		for m := range c.Wins {
			ms = append(ms, m)
		}
		sort.Strings(ms)
		k := 0
		for _, m := range ms {
			hks := make([]string, 0)
			for hk := range c.Wins[m] {
				hks = append(hks, hk)
			}
			sort.Strings(hks)
			for _, hk := range hks {
				win := c.Wins[m][hk]
				hdr := map[string]string{}
				if hk != "none" {
					hdr["K"] = hk
				}
				leads := []string{"/"}
				if c.Fam == "hdr" {
					leads = []string{"/", "//"}
				}
				for pi, p := range treeUniv.Paths {
					for _, lead := range leads {
						raw := lead + strings.Join(p, "/")
						if hk == "none" {
							hdr["K"] = ""
							x.emptyHdr = pi % 3 // absent, present-but-empty and present-without-values must all leave the route invisible
						}
						nest := ""
						if k%5 == 4 && m == "GET" {
							nest = prevRaw // a middleware serves the previous path as a nested request before this chain goes on
						}
						o := x.serveNested(m, raw, hdr, nest)
						prevRaw = encBytes(raw)
						exp := int(win[pi] - '0')
						treeStats.Compared++
						k++
						if o.reg == exp && !o.panicked && o.chains == 1 && k%sample != 0 {
							treeStats.Equal++
							continue
						}
						emitServe(m, raw, hdr, o)
					}
				}
			}
		}
	}
	// (2) explicit requests
	for qi, rq := range c.Reqs {
		raw := decBytes(rq.Raw)
		x.emptyHdr = qi % 3
		nest := rq.Nest
		if nest == "" && qi%4 == 3 {
			nest = c.Reqs[qi-1].Raw
		}
		o := x.serveNested(rq.M, raw, rq.H, nest)
		emitServe(rq.M, raw, rq.H, o)
	}
	// (3) URL building
	for ui, u := range c.URLs {
		name := "no-such-route"
		known := false
		if u.Reg > 0 {
			if n, ok := x.named[u.Reg]; ok {
				name, known = n, true
			}
		}
		pairs := []string{}
		vals := [][]string{}
		for _, kv := range u.Vals {
			pairs = append(pairs, kv[0], decBytes(kv[1]))
			vals = append(vals, []string{kv[0], kv[1]})
		}
		// the option is a pair like any other: it may come first, between the value pairs or last; any value other
		// than "true" does not ask for the optional segment
		if u.WithOpt {
			pairs = insertPair(pairs, (ui+len(pairs))%3, "withOptional", "true")
		} else if ui%3 == 0 {
			pairs = insertPair(pairs, ui%2*2, "withOptional", []string{"false", "1", ""}[ui/3%3])
		}
		reg := u.Reg
		if reg == 0 {
			reg = 1
		}
		if known && len(u.Vals) >= 2 {
			// calls that a careless memo of earlier results would confuse with the one below: the first two pairs folded
			// into ONE value (a value may contain the name of another bind and any separator)
			for _, sep := range []string{"/", ",", "=", "&", "\x00", " "} {
				folded := decBytes(u.Vals[0][1]) + sep + u.Vals[1][0] + sep + decBytes(u.Vals[1][1])
				fp := []string{u.Vals[0][0], folded}
				fv := [][]string{{u.Vals[0][0], encBytes(folded)}}
				for _, kv := range u.Vals[2:] {
					fp = append(fp, kv[0], decBytes(kv[1]))
					fv = append(fv, []string{kv[0], kv[1]})
				}
				fout, fpan := "", false
				func() {
					defer func() {
						if r := recover(); r != nil {
							fpan = true
						}
					}()
					fout = x.f.URLPath(name, fp...)
				}()
				tr.emit(map[string]interface{}{"ev": "URLPath", "reg": reg, "known": known, "vals": fv, "withopt": false,
					"out": encBytes(fout), "panicked": fpan})
			}
		}
		out, panicked := "", false
		func() {
			defer func() {
				if r := recover(); r != nil {
					panicked = true
				}
			}()
			out = x.f.URLPath(name, pairs...)
		}()
		tr.emit(map[string]interface{}{"ev": "URLPath", "reg": reg, "known": known, "vals": vals, "withopt": u.WithOpt,
			"out": encBytes(out), "panicked": panicked})
		if !panicked {
			// the SAME argument slice once more: building a URL does not consume or rearrange the caller's pairs
			out2, panicked2 := "", false
			func() {
				defer func() {
					if r := recover(); r != nil {
						panicked2 = true
					}
				}()
				out2 = x.f.URLPath(name, pairs...)
			}()
			if out2 != out || panicked2 {
				tr.emit(map[string]interface{}{"ev": "URLPath", "reg": reg, "known": known, "vals": vals, "withopt": u.WithOpt,
					"out": encBytes(out2), "panicked": panicked2})
			}
		}
	}
}

// insertPair puts the pair k, v first (where = 0), after the first pair (1) or last (2).
func insertPair(pairs []string, where int, k, v string) []string {
	at := len(pairs)
	switch {
	case where == 0:
		at = 0
	case where == 1 && len(pairs) >= 2:
		at = 2
	}
	out := append([]string{}, pairs[:at]...)
	out = append(out, k, v)
	return append(out, pairs[at:]...)
}

// redundantEscape spells the first ASCII letter or digit of every segment as %XX: a valid but non-default encoding of p.
func redundantEscape(p string) string {
	var b strings.Builder
	fresh := true
	for i := 0; i < len(p); i++ {
		c := p[i]
		if fresh && (c >= 'a' && c <= 'z' || c >= 'A' && c <= 'Z' || c >= '0' && c <= '9') {
			fmt.Fprintf(&b, "%%%02X", c)
			fresh = false
			continue
		}
		if c == '/' {
			fresh = true
		}
		b.WriteByte(c)
	}
	return b.String()
}

func min(a, b int) int {
	if a < b {
		return a
	}
	return b
}

func envInt(k string, d int) int {
	if v := os.Getenv(k); v != "" {
		var n int
		if _, err := fmt.Sscan(v, &n); err == nil && n > 0 {
			return n
		}
	}
	return d
}

func treeSetup(args []string) {
	for i := 0; i+1 < len(args); i += 2 {
		if args[i] == "--univ" {
			b, err := os.ReadFile(args[i+1])
			if err != nil {
				panic(err)
			}
			if err := json.Unmarshal(b, &treeUniv); err != nil {
				panic(err)
			}
		}
	}
}

func treeFinish() {
	b, _ := json.Marshal(treeStats)
	fmt.Fprintf(os.Stderr, "STATS %s\n", b)
}

func init() {
	modules["tree"] = &module{gen: treeGen, replay: treeReplay, setup: treeSetup, finish: treeFinish}
}
