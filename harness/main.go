// Command verifharness is the conformance harness that binds the TLA+
// specifications under /verif/spec to the real flamego code.
//
//	verifharness <module> gen <seed> <n> [args...]    random cases  -> stdout (jsonl)
//	verifharness <module> replay <cases> <trace>      execute cases -> ndjson trace
//
// A case is one JSON object per line; the same format is emitted by TLC
// (CASE lines) and by the random generators, so every case can be re-executed
// alone from a replay file.
package main

import (
	"bufio"
	"encoding/json"
	"fmt"
	"os"
	"strconv"
)

type module struct {
	gen    func(seed int64, n int, args []string, out *json.Encoder)
	replay func(c json.RawMessage, idx int, tr *traceWriter)
	setup  func(args []string) // optional: extra replay arguments
	finish func()              // optional: print STATS to stderr
}

var modules = map[string]*module{}

type traceWriter struct {
	w   *bufio.Writer
	enc *json.Encoder
	n   int
}

func (t *traceWriter) emit(v interface{}) {
	if err := t.enc.Encode(v); err != nil {
		panic(err)
	}
	t.n++
}

func main() {
	if len(os.Args) < 3 {
		fmt.Fprintln(os.Stderr, "usage: verifharness <module> gen|replay ...")
		os.Exit(2)
	}
	m, ok := modules[os.Args[1]]
	if !ok {
		fmt.Fprintln(os.Stderr, "unknown module", os.Args[1])
		os.Exit(2)
	}
	switch os.Args[2] {
	case "gen":
		seed, _ := strconv.ParseInt(os.Args[3], 10, 64)
		n, _ := strconv.Atoi(os.Args[4])
		w := bufio.NewWriterSize(os.Stdout, 1<<20)
		enc := json.NewEncoder(w)
		enc.SetEscapeHTML(false)
		m.gen(seed, n, os.Args[5:], enc)
		w.Flush()
	case "replay":
		in, err := os.Open(os.Args[3])
		if err != nil {
			panic(err)
		}
		out, err := os.Create(os.Args[4])
		if err != nil {
			panic(err)
		}
		bw := bufio.NewWriterSize(out, 1<<20)
		enc := json.NewEncoder(bw)
		enc.SetEscapeHTML(false)
		tr := &traceWriter{w: bw, enc: enc}
		if m.setup != nil {
			m.setup(os.Args[5:])
		}
		sc := bufio.NewScanner(in)
		sc.Buffer(make([]byte, 1<<20), 1<<28)
		idx := 0
		for sc.Scan() {
			line := sc.Bytes()
			if len(line) == 0 {
				continue
			}
			cp := make([]byte, len(line))
			copy(cp, line)
			m.replay(json.RawMessage(cp), idx, tr)
			idx++
		}
		bw.Flush()
		out.Close()
		if m.finish != nil {
			m.finish()
		}
		fmt.Fprintf(os.Stderr, "replayed %d cases, %d events\n", idx, tr.n)
	default:
		os.Exit(2)
	}
}

// flushAndExit ends a replay early (a call into the code under test does not return): what was recorded so far is
// the trace.
func (t *traceWriter) flushAndExit() {
	_ = t.w.Flush()
	fmt.Fprintf(os.Stderr, "replay aborted: a call did not return (%d events recorded)\n", t.n)
	os.Exit(0)
}
