package main

// C16: the Static middleware over a scratch directory tree (see spec/StaticP.tla)
// with a file outside the served root.

import (
	"encoding/json"
	"io"
	"math/rand"
	"net/http"
	"net/http/httptest"
	"net/url"
	"os"
	"path/filepath"
	"strconv"
	"strings"

	"github.com/flamego/flamego"
)

type stCase struct {
	Method string   `json:"method"`
	Segs   []string `json:"segs"`
	Prefix []string `json:"prefix"`
	Opt    int      `json:"opt,omitempty"`
}

var stRoot string
var stByLen = map[int]string{1: "F", 2: "DI", 3: "G", 4: "PF", 6: "SECRET"}

func stSetup() {
	if stRoot != "" {
		return
	}
	base, err := os.MkdirTemp("", "verif-static-")
	if err != nil {
		panic(err)
	}
	stRoot = filepath.Join(base, "root")
	must := func(err error) {
		if err != nil {
			panic(err)
		}
	}
	must(os.MkdirAll(filepath.Join(stRoot, "d"), 0o755))
	must(os.MkdirAll(filepath.Join(stRoot, "e"), 0o755))
	must(os.MkdirAll(filepath.Join(stRoot, "pfx"), 0o755))
	must(os.MkdirAll(filepath.Join(stRoot, "x", "index.html"), 0o755)) // an index entry that is a directory
	must(os.WriteFile(filepath.Join(stRoot, "f"), []byte("F"), 0o644))
	must(os.WriteFile(filepath.Join(stRoot, "d", "index.html"), []byte("DI"), 0o644))
	must(os.WriteFile(filepath.Join(stRoot, "d", "g"), []byte("GGG"), 0o644))
	must(os.WriteFile(filepath.Join(stRoot, "pfx", "f"), []byte("PFPF"), 0o644))
	must(os.WriteFile(filepath.Join(base, "secret"), []byte("SECRET"), 0o644))
}

func stFinish() {
	if stRoot != "" {
		_ = os.RemoveAll(filepath.Dir(stRoot))
	}
}

func concSeg(s string) string {
	if s == "index" {
		return "index.html"
	}
	return decBytes(s)
}

func absSeg(s string) string {
	if s == "index.html" {
		return "index"
	}
	return encBytes(s)
}

func stReplay(raw json.RawMessage, idx int, tr *traceWriter) {
	stSetup()
	var c stCase
	if err := json.Unmarshal(raw, &c); err != nil {
		panic(err)
	}
	if c.Prefix == nil {
		c.Prefix = []string{}
	}
	tr.emit(map[string]interface{}{"case": idx, "ev": "reset", "input": raw, "nt": len(c.Segs) > 1})
	opt := c.Opt
	if opt == 0 {
		opt = 1 + (idx*7+envInt("VERIF_SEED", 1))%24
	}
	so := flamego.StaticOptions{Directory: stRoot}
	if len(c.Prefix) > 0 {
		p := strings.Join(c.Prefix, "/")
		so.Prefix = []string{p, "/" + p, "/" + p + "/", p + "/"}[opt%4]
	}
	if opt%2 == 0 {
		so.SetETag = true
	}
	if opt%3 != 1 {
		so.Expires = func() string { return "Thu, 01 Jan 2099 00:00:00 GMT" }
	}
	if opt%5 == 0 {
		so.CacheControl = func() string { return "max-age=60" }
	}
	f := flamego.NewWithLogger(io.Discard)
	// the options are handed over in a slice of the caller's own, which the caller re-uses afterwards (to configure another
	// instance, say): the middleware is configured by what the options were at the time of the call
	soSlice := []flamego.StaticOptions{so}
	f.Use(flamego.Static(soSlice...))
	soSlice[0] = flamego.StaticOptions{Directory: filepath.Dir(stRoot), Prefix: "elsewhere", Index: "secret"}
	_ = flamego.Static(soSlice...)
	nextRan, writtenAtNext := false, false
	leaked := []string{}
	f.NotFound(func(c flamego.Context) {
		nextRan = true
		writtenAtNext = c.ResponseWriter().Written()
		for k := range c.ResponseWriter().Header() {
			leaked = append(leaked, k) // whatever Static left in the header map of a response it did not serve
		}
		c.ResponseWriter().WriteHeader(404)
	})
	parts := make([]string, len(c.Segs))
	for i, s := range c.Segs {
		parts[i] = concSeg(s)
	}
	req := &http.Request{Method: c.Method, URL: &url.URL{Path: "/" + strings.Join(parts, "/")}, Header: http.Header{},
		Proto: "HTTP/1.1", ProtoMajor: 1, ProtoMinor: 1, Host: "x"}
	w := httptest.NewRecorder()
	panicked := false
	func() {
		defer func() {
			if r := recover(); r != nil {
				panicked = true
			}
		}()
		f.ServeHTTP(w, req)
	}()
	kind, id := "silent", ""
	loc := []string{}
	written := !nextRan || writtenAtNext
	switch {
	case nextRan && !writtenAtNext:
		kind = "silent"
	case w.Code == 301 || w.Code == 302:
		kind = "redirect"
		l := w.Header().Get("Location")
		if !strings.HasSuffix(l, "/") {
			loc = []string{"?noslash:" + encBytes(l)}
		} else {
			for _, s := range strings.Split(strings.Trim(l, "/"), "/") {
				if s != "" {
					loc = append(loc, absSeg(s))
				}
			}
		}
	default:
		kind = "file"
		n := w.Body.Len()
		if c.Method == "HEAD" || n == 0 {
			n, _ = strconv.Atoi(w.Header().Get("Content-Length"))
		}
		if v, ok := stByLen[n]; ok && (c.Method == "HEAD" || strings.HasPrefix(w.Body.String(), v[:1])) {
			id = v
		} else {
			id = "?" + encBytes(w.Body.String()) + "#" + strconv.Itoa(w.Code)
		}
		if w.Code != 200 {
			id = "?status" + strconv.Itoa(w.Code)
		}
	}
	// conditional re-request: with SetETag a matching If-None-Match must be answered 304 without a body
	inmStatus, inmBody := 0, 0
	if et := w.Header().Get("ETag"); et != "" && kind == "file" {
		req2 := &http.Request{Method: c.Method, URL: &url.URL{Path: req.URL.Path}, Header: http.Header{"If-None-Match": {et}},
			Proto: "HTTP/1.1", ProtoMajor: 1, ProtoMinor: 1, Host: "x"}
		w2 := httptest.NewRecorder()
		func() {
			defer func() {
				if r := recover(); r != nil {
					panicked = true
				}
			}()
			f.ServeHTTP(w2, req2)
		}()
		inmStatus, inmBody = w2.Code, w2.Body.Len()
	}
	// conditional re-request by date (a revalidation: If-Modified-Since far in the future, no If-None-Match): a file may be
	// answered 304; a directory is redirected / falls through / is served through its index exactly as without the header
	firstNextRan, firstWrittenAtNext, firstLeaked := nextRan, writtenAtNext, len(leaked)
	nextRan, writtenAtNext = false, false
	req3 := &http.Request{Method: c.Method, URL: &url.URL{Path: req.URL.Path}, Header: http.Header{"If-Modified-Since": {"Fri, 01 Jan 2100 00:00:00 GMT"},
			// what a reverse proxy (or anybody) may announce about the "original" request: none of it moves a redirect or a file
			"X-Forwarded-Prefix": {"//evil.example/app"}, "X-Forwarded-Host": {"evil.example"}, "X-Forwarded-Proto": {"https"},
			"X-Original-Url": {"/secret"}, "X-Rewrite-Url": {"/secret"}, "X-Forwarded-For": {"10.0.0.1"}, "Forwarded": {"host=evil.example;proto=https"}},
		Proto: "HTTP/1.1", ProtoMajor: 1, ProtoMinor: 1, Host: "x"}
	w3 := httptest.NewRecorder()
	func() {
		defer func() {
			if r := recover(); r != nil {
				panicked = true
			}
		}()
		f.ServeHTTP(w3, req3)
	}()
	imsKind := "file"
	switch {
	case nextRan && !writtenAtNext:
		imsKind = "silent"
	case nextRan:
		imsKind = "?written-and-next"
	case w3.Code == 301 || w3.Code == 302:
		imsKind = "redirect"
		if w3.Header().Get("Location") != w.Header().Get("Location") {
			imsKind = "?other-location"
		}
	case w3.Code == 304 && w3.Body.Len() == 0:
		imsKind = "notmodified"
	case w3.Code != 200 || (c.Method != "HEAD" && w3.Body.String() != w.Body.String()):
		imsKind = "?status" + strconv.Itoa(w3.Code)
	}
	nextRan, writtenAtNext = firstNextRan, firstWrittenAtNext
	leaked = leaked[:firstLeaked]
	tr.emit(map[string]interface{}{"ev": "static", "ims_kind": imsKind, "inm_status": inmStatus, "inm_body": inmBody, "method": c.Method, "segs": c.Segs, "prefix": c.Prefix, "kind": kind, "id": id,
		"loc": loc, "written": written && !(nextRan && !writtenAtNext), "next_ran": nextRan, "leaked": len(leaked), "panicked": panicked, "status": w.Code})
}

var stHostile = []string{"f", "d", "e", "x", "x", "g", "index", "pfx", "pfxx", "pfxf", "pfxd", "pfxe", "pfx.", ".pfx", "well-known", "secret", "..", ".", "", "...", "%2e%2e", "..\\secret", "\x00", "f\x00", "d\x00",
	"..;", "F", "root", "~", "..%2f", "f ", " f", "\xff", "index.htm", strings.Repeat("a", 300), "..\\..\\secret", "secret\x00.txt"}

func stGen(seed int64, n int, args []string, out *json.Encoder) {
	rng := rand.New(rand.NewSource(seed))
	for i := 0; i < n; i++ {
		c := stCase{Method: []string{"GET", "GET", "HEAD", "POST", "PUT", "OPTIONS", "get", "BREW"}[rng.Intn(8)], Prefix: []string{}, Opt: 1 + rng.Intn(24)}
		if rng.Intn(2) == 0 {
			// the prefix is compared as it is configured (only its slashes are normalised): a dot is a character like any other
			c.Prefix = []string{[]string{"pfx", "pfx", ".pfx", "pfx.", ".well-known"}[rng.Intn(5)]}
		}
		k := rng.Intn(8)
		if len(c.Prefix) > 0 && rng.Intn(3) > 0 {
			first := c.Prefix[0]
			if rng.Intn(4) == 0 {
				first = strings.Trim(first, ".") // the look-alike without the dots
			}
			c.Segs = append(c.Segs, first)
		}
		for j := 0; j < k; j++ {
			c.Segs = append(c.Segs, encBytes(stHostile[rng.Intn(len(stHostile))]))
		}
		if c.Segs == nil {
			c.Segs = []string{}
		}
		_ = out.Encode(c)
	}
}

func init() { modules["static"] = &module{gen: stGen, replay: stReplay, finish: stFinish} }
