package main

// C05: concurrent requests on one Flame. A case names the requests and
// optionally a schedule (sequence of request ids): the k-th occurrence of id p
// releases request p from its k-th gate (before routing / in the middleware /
// in the route handler). Without a schedule the requests run freely after a
// barrier (this is the mode run under the race detector).

import (
	"encoding/json"
	"fmt"
	"io"
	"math/rand"
	"net/http"
	"net/http/httptest"
	"os"
	"regexp"
	"runtime"
	"strconv"
	"strings"
	"sync"
	"time"

	"github.com/charmbracelet/log"
	"github.com/flamego/flamego"
)

type ccReq struct {
	ID    int    `json:"id"`
	Route string `json:"route"`
	Val   string `json:"val"`
}

type ccCase struct {
	Reqs  []ccReq `json:"reqs"`
	Sched []int   `json:"sched"`
	Fresh bool    `json:"fresh,omitempty"`
}

type reqTag struct{ id int }

type ccSvc struct{ name string }

func (s *ccSvc) Name() string { return s.name }

type ccNamer interface{ Name() string }

type ccOut struct {
	H   string `json:"h"`
	Val string `json:"val"`
	Tag int    `json:"tag"`
	URL string `json:"url"`
	Wid int    `json:"wid"`
	Log int    `json:"log"` // 10 x (Started / Completed lines of this request found in ITS OWN request-scoped logger) + lines of other requests found there
	Scr int    `json:"scr"` // what the route handler finds under the scratch key that the middleware of the same request left in c.Params()
}

type ccGates struct {
	logs    map[int]*ccBuf // request id -> what was written to the logger mapped for that request
	on      bool
	at      map[int]chan struct{}
	release map[int]chan struct{}
}

// ccBuf is a goroutine-safe buffer (a logger may be written to by the wrong request, which is the point)
type ccBuf struct {
	mu sync.Mutex
	b  []byte
}

func (b *ccBuf) Write(p []byte) (int, error) {
	b.mu.Lock()
	defer b.mu.Unlock()
	b.b = append(b.b, p...)
	return len(p), nil
}

func (b *ccBuf) String() string {
	b.mu.Lock()
	defer b.mu.Unlock()
	return string(b.b)
}

func (g *ccGates) gate(id int) {
	if !g.on {
		return
	}
	g.at[id] <- struct{}{}
	<-g.release[id]
}

var ccFiles = map[string]string{"fa": strings.Repeat("A", 100), "fb": strings.Repeat("B", 200), "fc": strings.Repeat("C", 300)}
var ccDir string
var ccETags = map[string]string{}

// ccStaticDir creates the served directory once and learns the ETag of every file from an application that serves them
// one after the other (the serial answer).
func ccStaticDir() string {
	if ccDir != "" {
		return ccDir
	}
	d, err := os.MkdirTemp("", "verif-conc-static-")
	if err != nil {
		panic(err)
	}
	for n, body := range ccFiles {
		if err := os.WriteFile(d+"/"+n, []byte(body), 0o644); err != nil {
			panic(err)
		}
	}
	ccDir = d
	f := flamego.NewWithLogger(io.Discard)
	f.Use(flamego.Static(flamego.StaticOptions{Directory: d, Prefix: "st", SetETag: true}))
	for _, n := range []string{"fa", "fb", "fc"} {
		w := httptest.NewRecorder()
		r, _ := http.NewRequest("GET", "/st/"+n, nil)
		f.ServeHTTP(w, r)
		ccETags[n] = w.Header().Get("ETag")
	}
	return d
}

func ccFile(rq ccReq) string { return []string{"fa", "fb", "fc"}[rq.ID%3] }

func ccFlame(g *ccGates) *flamego.Flame {
	f := flamego.NewWithLogger(io.Discard)
	idOf := func(r *http.Request) int { n, _ := strconv.Atoi(r.Header.Get("X-Req-Id")); return n }
	f.Before(func(w http.ResponseWriter, r *http.Request) bool { g.gate(idOf(r)); return false })
	f.Use(func(c flamego.Context) {
		id := idOf(c.Request().Request)
		g.gate(id)
		c.Map(&reqTag{id})
		if c.Params() != nil { // (the not-found chain has no parameters)
			c.Params()["_scratch"] = strconv.Itoa(id) // the Params map belongs to this request alone
		}
		if lb := g.logs[id]; lb != nil {
			c.Map(log.New(lb)) // a logger of this request's own (e.g. carrying its trace id): later handlers are given this one
		}
	})
	f.Use(flamego.Logger())
	f.Use(flamego.Recovery()) // development environment: the answer to a panic carries the formatted stack with source lines
	f.Use(flamego.Renderer())
	// static files with ETags: requests for different files are in flight at the same time
	f.Use(flamego.Static(flamego.StaticOptions{Directory: ccStaticDir(), Prefix: "st", SetETag: true}))
	// two more middleware, added one by one: the middleware slice then has spare capacity (len 3, cap 4),
	// which is what makes an append to it by one request visible to another
	f.Use(func(c flamego.Context) {})
	f.Use(func(w http.ResponseWriter) {})
	f.Use(func(r *http.Request) {})
	// the number of Use calls is chosen so that the slice keeps SPARE capacity (append grows 1, 2, 4, 8, 16): nine calls,
	// len 9, cap 16 - with len == cap every append would copy and a shared backing array could not show
	f.Use(func() {})
	// a service mapped on the Flame by its concrete type only; handlers ask for it through an interface, so the first
	// requests of a round resolve it concurrently in the shared application injector
	f.Map(&ccSvc{name: "svc"})
	h := func(kind string) flamego.Handler {
		return func(c flamego.Context, t *reqTag, sv ccNamer) {
			id := idOf(c.Request().Request)
			g.gate(id)
			if sv.Name() != "svc" {
				kind = "?svc"
			}
			out := ccOut{H: kind, Val: c.Param("v"), Tag: t.id, URL: c.URLPath("named", "v", c.Request().Header.Get("X-Val")), Wid: id}
			out.Scr, _ = strconv.Atoi(c.Param("_scratch"))
			b, _ := json.Marshal(out)
			c.ResponseWriter().Header().Set("X-Wid", strconv.Itoa(id))
			_, _ = c.ResponseWriter().Write(b)
		}
	}
	f.Get("/rd/{v}", func(c flamego.Context, t *reqTag, r flamego.Render) {
		id := idOf(c.Request().Request)
		g.gate(id)
		out := ccOut{H: "render", Val: c.Param("v"), Tag: t.id, URL: c.URLPath("named", "v", c.Request().Header.Get("X-Val")), Wid: id}
		out.Scr, _ = strconv.Atoi(c.Param("_scratch"))
		c.ResponseWriter().Header().Set("X-Wid", strconv.Itoa(id))
		r.JSON(200, out) // through the Render service mapped by the Renderer middleware for this request
	})
	f.Get("/pn/{v}", func(c flamego.Context, t *reqTag) {
		id := idOf(c.Request().Request)
		g.gate(id)
		hd := c.ResponseWriter().Header()
		hd.Set("X-Wid", strconv.Itoa(id))
		hd.Set("X-Tag", strconv.Itoa(t.id))
		hd.Set("X-Scr", c.Param("_scratch"))
		hd.Set("X-Url", c.URLPath("named", "v", c.Request().Header.Get("X-Val")))
		panic(fmt.Sprintf("boom-%s-%d-", c.Param("v"), id))
	})
	// a route that answers by RETURNING its body: the value goes through the ReturnHandler service shared by all requests
	f.Get("/ret/{v}", func(c flamego.Context, t *reqTag) string {
		id := idOf(c.Request().Request)
		g.gate(id)
		out := ccOut{H: "ret", Val: c.Param("v"), Tag: t.id, URL: c.URLPath("named", "v", c.Request().Header.Get("X-Val")), Wid: id}
		out.Scr, _ = strconv.Atoi(c.Param("_scratch"))
		c.ResponseWriter().Header().Set("X-Wid", strconv.Itoa(id))
		b, _ := json.Marshal(out)
		return string(b)
	})
	// a route that reads the request body with the Body().Bytes() helper and uses the bytes AFTER other requests have read theirs
	f.Post("/bd", func(c flamego.Context, t *reqTag) {
		id := idOf(c.Request().Request)
		b, _ := c.Request().Body().Bytes()
		g.gate(id)
		runtime.Gosched() // let the other requests of the round read their bodies first
		val := string(b)
		if i := strings.IndexByte(val, ';'); i >= 0 {
			val = val[:i]
		}
		out := ccOut{H: "body", Val: val, Tag: t.id, URL: c.URLPath("named", "v", c.Request().Header.Get("X-Val")), Wid: id}
		out.Scr, _ = strconv.Atoi(c.Param("_scratch"))
		c.ResponseWriter().Header().Set("X-Wid", strconv.Itoa(id))
		o, _ := json.Marshal(out)
		_, _ = c.ResponseWriter().Write(o)
	})
	// "cold" routes: a static segment that has no sibling registered after it (alone in its method tree / the only child of
	// its parent), so that nothing at set-up time has looked at it yet - the first requests do, concurrently
	f.Delete("/lone/{v}", h("lone"))
	f.Get("/deep/er/{v}", h("deep"))
	f.Get("/s", h("static"))
	f.Get("/p/{v}", h("param")).Name("named")
	f.Get("/o/?{v}", h("opt"))
	f.Get("/r/{v: /[a-z0-9]+/}", h("regex"))
	f.Get("/a/{v: **}", h("all"))
	f.Get("/h", h("hdr")).Headers("X-K", "^k$")
	// requests whose method is none of the registrable ones end up in the not-found chain (nothing is registered or
	// looked up lazily for them either)
	f.NotFound(func(c flamego.Context, t *reqTag, sv ccNamer) {
		id := idOf(c.Request().Request)
		g.gate(id)
		out := ccOut{H: "unk", Tag: t.id, URL: c.URLPath("named", "v", c.Request().Header.Get("X-Val")), Wid: id, Scr: id}
		if sv.Name() != "svc" {
			out.H = "?svc"
		}
		b, _ := json.Marshal(out)
		c.ResponseWriter().Header().Set("X-Wid", strconv.Itoa(id))
		_, _ = c.ResponseWriter().Write(b)
	})
	return f
}

var rePanicPage = regexp.MustCompile(`boom-([a-z0-9]+)-(\d+)-`)

func m0(rq ccReq) string { return fmt.Sprintf("boom-%s-%d-", rq.Val, rq.ID) }

func ccRequest(rq ccReq) *http.Request {
	path := map[string]string{"static": "/s", "param": "/p/" + rq.Val, "opt": "/o/" + rq.Val, "regex": "/r/" + rq.Val,
		"all": "/a/" + rq.Val, "hdr": "/h", "render": "/rd/" + rq.Val, "panic": "/pn/" + rq.Val, "lone": "/lone/" + rq.Val, "deep": "/deep/er/" + rq.Val, "ret": "/ret/" + rq.Val, "body": "/bd", "unk": "/s", "file": "/st/" + ccFile(rq)}[rq.Route]
	method := "GET"
	if rq.Route == "unk" {
		method = []string{"PROPFIND", "PURGE", "LINK", "get"}[rq.ID%4]
	}
	if rq.Route == "lone" {
		method = "DELETE"
	}
	var payload io.Reader
	if rq.Route == "body" {
		// larger than the smallest buffer a reader grows to, and of the same size for every request
		method, payload = "POST", io.MultiReader(strings.NewReader(rq.Val+";"), strings.NewReader(strings.Repeat("x", 700-len(rq.Val))))
	}
	r, _ := http.NewRequest(method, path, payload)
	r.Header.Set("X-Req-Id", strconv.Itoa(rq.ID))
	r.Header.Set("X-Val", rq.Val)
	r.Header.Set("X-K", "k")
	r.RequestURI = path + "?rid=" + strconv.Itoa(rq.ID) + "&" // what the Logger middleware prints as the path
	return r
}

func ccReplay(raw json.RawMessage, idx int, tr *traceWriter) {
	var c ccCase
	if err := json.Unmarshal(raw, &c); err != nil {
		panic(err)
	}
	tr.emit(map[string]interface{}{"case": idx, "ev": "reset", "input": raw, "nt": len(c.Reqs) > 1})
	g := &ccGates{on: len(c.Sched) > 0, at: map[int]chan struct{}{}, release: map[int]chan struct{}{}}
	g.logs = map[int]*ccBuf{}
	for _, rq := range c.Reqs {
		g.logs[rq.ID] = &ccBuf{}
	}
	f := ccFlame(g)
	type res struct {
		out      ccOut
		panicked bool
		body     string
	}
	results := make([]res, len(c.Reqs))
	done := map[int]chan struct{}{}
	var wg sync.WaitGroup
	start := make(chan struct{})
	for _, rq := range c.Reqs {
		g.at[rq.ID] = make(chan struct{})
		g.release[rq.ID] = make(chan struct{})
		done[rq.ID] = make(chan struct{})
	}
	for i, rq := range c.Reqs {
		wg.Add(1)
		go func(i int, rq ccReq) {
			defer wg.Done()
			defer close(done[rq.ID])
			<-start
			w := httptest.NewRecorder()
			func() {
				defer func() {
					if r := recover(); r != nil {
						results[i].panicked = true
						if os.Getenv("VERIF_DEBUG") != "" {
							fmt.Fprintf(os.Stderr, "request %d panicked: %v\n", rq.ID, r)
						}
					}
				}()
				f.ServeHTTP(w, ccRequest(rq))
			}()
			results[i].body = w.Body.String()
			_ = json.Unmarshal(w.Body.Bytes(), &results[i].out)
			if rq.Route == "panic" {
				// answered by Recovery: 500 and a page that names this request's panic value; what the handler put in
				// its own header map before panicking is still there
				o := &results[i].out
				if m := rePanicPage.FindStringSubmatch(w.Body.String()); w.Code == 500 && m != nil {
					o.H, o.Val = "panic", m[1]
					o.Wid, _ = strconv.Atoi(m[2])
				}
				o.Tag, _ = strconv.Atoi(w.Header().Get("X-Tag"))
				o.Scr, _ = strconv.Atoi(w.Header().Get("X-Scr"))
				o.URL = w.Header().Get("X-Url")
				for _, all := range rePanicPage.FindAllString(w.Body.String(), -1) {
					if all != m0(rq) {
						o.H = "?foreign-panic-text"
					}
				}
			}
			if rq.Route == "file" {
				// answered by Static: the content and the ETag of the file asked for (its serial answer), or something else
				n := ccFile(rq)
				if w.Code == 200 && w.Body.String() == ccFiles[n] && w.Header().Get("ETag") == ccETags[n] && ccETags[n] != "" {
					results[i].out = ccOut{H: "file", Tag: rq.ID, URL: "/p/" + rq.Val, Wid: rq.ID, Scr: rq.ID}
				} else {
					results[i].out = ccOut{H: "?file " + strconv.Itoa(w.Code) + " " + w.Header().Get("ETag")}
				}
				return
			}
			if wid, err := strconv.Atoi(w.Header().Get("X-Wid")); err != nil || wid != results[i].out.Wid {
				results[i].out.Wid = -1 // the header written through the handler's writer landed elsewhere
			}
		}(i, rq)
	}
	close(start)
	if g.on {
		for _, p := range c.Sched {
			select {
			case <-g.at[p]:
				g.release[p] <- struct{}{}
			case <-done[p]:
			case <-time.After(5 * time.Second):
			}
		}
		// release anything still parked (a request that needs more gates than scheduled)
		g.on = false
		for _, rq := range c.Reqs {
			go func(id int) {
				for {
					select {
					case <-g.at[id]:
						g.release[id] <- struct{}{}
					case <-done[id]:
						return
					}
				}
			}(rq.ID)
		}
	}
	wg.Wait()
	for i, rq := range c.Reqs {
		own, foreign := 0, 0
		for _, ln := range strings.Split(g.logs[rq.ID].String(), "\n") {
			if !strings.Contains(ln, "Started") && !strings.Contains(ln, "Completed") {
				continue
			}
			if strings.Contains(ln, "rid="+strconv.Itoa(rq.ID)+"&") {
				own++
			} else {
				foreign++
			}
		}
		results[i].out.Log = 10*own + foreign
		tr.emit(map[string]interface{}{"ev": "resp", "req": rq, "out": results[i].out, "panicked": results[i].panicked})
	}
}

func ccGen(seed int64, n int, args []string, out *json.Encoder) {
	rng := rand.New(rand.NewSource(seed))
	kinds := []string{"static", "param", "opt", "regex", "all", "hdr", "render", "render", "panic", "panic", "lone", "lone", "lone", "deep", "deep", "ret", "ret", "ret", "body", "body", "body", "unk", "unk", "unk", "file", "file", "file", "file"}
	if len(args) > 0 && args[0] == "panic" {
		// rounds in which most requests panic at the same time (through the one Recovery instance of the round)
		kinds = []string{"panic", "panic", "panic", "panic", "panic", "panic", "static", "param", "ret"}
	}
	for i := 0; i < n; i++ {
		k := 8 + rng.Intn(57)
		c := ccCase{Sched: []int{}}
		for j := 1; j <= k; j++ {
			c.Reqs = append(c.Reqs, ccReq{ID: j, Route: kinds[rng.Intn(len(kinds))], Val: fmt.Sprintf("v%d", rng.Intn(1000))})
		}
		_ = out.Encode(c)
	}
}

func ccFinish() {
	if ccDir != "" {
		_ = os.RemoveAll(ccDir)
	}
}

func init() { modules["conc"] = &module{gen: ccGen, replay: ccReplay, finish: ccFinish} }
