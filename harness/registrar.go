package main

// C11: registration programs (Group / Routes / Any / Get / Combo / AutoHead)
// executed on a real Flame; every variadic handler list is passed WITH SPARE
// CAPACITY, which is how slice aliasing becomes observable.

import (
	"encoding/json"
	"io"
	"math/rand"
	"net/http"
	"net/http/httptest"
	"strings"

	"github.com/flamego/flamego"
)

type rgCall struct {
	M  string `json:"m"`
	Hs []int  `json:"hs"`
}

type rgIns struct {
	Op    string   `json:"op"`
	Path  string   `json:"path"`
	Hs    []int    `json:"hs"`
	Ms    []string `json:"ms,omitempty"`
	Calls []rgCall `json:"calls,omitempty"`
	V     bool     `json:"v"`
	Cid   int      `json:"cid"` // cdecl / ccall: which Combo value
	M     string   `json:"m"`   // ccall: the method added to it
}

type rgCase struct {
	Prog []rgIns `json:"prog"`
	HW   int     `json:"hw,omitempty"` // 2: a HandlerWrapper is installed and every handler has a form it applies to; 1: not
}

type rgExec struct {
	combos map[int]*flamego.ComboRoute
	f    *flamego.Flame
	ids  []int
	rt   string
	prog []rgIns
	hw   bool // handlers are declared in a form the HandlerWrapper applies to (not one of the built-in fast-path forms)
	nw   int  // how many times a wrapper-produced handler ran in the current request
}

func (x *rgExec) hs(ids []int) []flamego.Handler {
	out := make([]flamego.Handler, 0, len(ids)+3) // spare capacity on purpose
	for _, id := range ids {
		id := id
		if x.hw {
			out = append(out, func(c flamego.Context, _ *http.Request) {
				x.ids = append(x.ids, id)
				x.rt = c.Param("route")
			})
			continue
		}
		out = append(out, func(c flamego.Context) {
			x.ids = append(x.ids, id)
			x.rt = c.Param("route")
		})
	}
	return out
}

// exec runs instructions [i, end of the enclosing group); returns the index after the matching "end".
func (x *rgExec) exec(i int) int {
	for i < len(x.prog) {
		ins := x.prog[i]
		switch ins.Op {
		case "end":
			return i + 1
		case "group":
			next := i + 1
			x.f.Group(ins.Path, func() { next = x.exec(i + 1) }, x.hs(ins.Hs)...)
			i = next
			continue
		case "route":
			hs := x.hs(ins.Hs)
			switch (i + len(ins.Ms)) % 3 {
			case 0: // "GET,POST"
				x.f.Routes(ins.Path, strings.Join(ins.Ms, ","), hs...)
			case 1: // "GET, POST" - blanks after the comma are trimmed
				x.f.Routes(ins.Path, strings.Join(ins.Ms, ", "), hs...)
			default: // Routes(path, "GET", "POST", handlers...): further methods as leading string arguments
				args := make([]flamego.Handler, 0, len(ins.Ms)+len(hs)+2)
				for _, m := range ins.Ms[1:] {
					args = append(args, m)
				}
				args = append(args, hs...)
				x.f.Routes(ins.Path, ins.Ms[0], args...)
			}
		case "any":
			x.f.Any(ins.Path, x.hs(ins.Hs)...)
		case "get":
			x.f.Get(ins.Path, x.hs(ins.Hs)...)
		case "combo":
			cb := x.f.Combo(ins.Path, x.hs(ins.Hs)...)
			for _, cl := range ins.Calls {
				switch cl.M {
				case "GET":
					cb.Get(x.hs(cl.Hs)...)
				case "POST":
					cb.Post(x.hs(cl.Hs)...)
				case "PUT":
					cb.Put(x.hs(cl.Hs)...)
				case "DELETE":
					cb.Delete(x.hs(cl.Hs)...)
				case "HEAD":
					cb.Head(x.hs(cl.Hs)...)
				}
			}
		case "autohead":
			x.f.AutoHead(ins.V)
		case "cdecl":
			// a Combo value that is kept: its methods are added later, possibly in another group scope
			if x.combos == nil {
				x.combos = map[int]*flamego.ComboRoute{}
			}
			x.combos[ins.Cid] = x.f.Combo(ins.Path, x.hs(ins.Hs)...)
		case "ccall":
			cb := x.combos[ins.Cid]
			switch ins.M {
			case "GET":
				cb.Get(x.hs(ins.Hs)...)
			case "POST":
				cb.Post(x.hs(ins.Hs)...)
			case "PUT":
				cb.Put(x.hs(ins.Hs)...)
			case "DELETE":
				cb.Delete(x.hs(ins.Hs)...)
			case "HEAD":
				cb.Head(x.hs(ins.Hs)...)
			}
		}
		i++
	}
	return i
}

func rgPaths(prog []rgIns) []string {
	gp := map[string]bool{"": true}
	rp := map[string]bool{}
	for _, ins := range prog {
		if ins.Op == "group" {
			gp[ins.Path] = true
		} else if ins.Op != "end" && ins.Op != "autohead" {
			rp[ins.Path] = true
		}
	}
	var gs []string
	for g := range gp {
		gs = append(gs, g)
	}
	seen := map[string]bool{}
	var out []string
	var rec func(prefix string, d int)
	rec = func(prefix string, d int) {
		for r := range rp {
			if !seen[prefix+r] && strings.HasPrefix(prefix+r, "/") {
				seen[prefix+r] = true
				out = append(out, prefix+r)
			}
		}
		if d == 0 {
			return
		}
		for _, g := range gs {
			if g != "" {
				rec(prefix+g, d-1)
			}
		}
	}
	rec("", 3)
	return out
}

func rgReplay(raw json.RawMessage, idx int, tr *traceWriter) {
	var c rgCase
	if err := json.Unmarshal(raw, &c); err != nil {
		panic(err)
	}
	for i := range c.Prog {
		if c.Prog[i].Hs == nil {
			c.Prog[i].Hs = []int{}
		}
		for j := range c.Prog[i].Calls {
			if c.Prog[i].Calls[j].Hs == nil {
				c.Prog[i].Calls[j].Hs = []int{}
			}
		}
	}
	if c.HW == 0 {
		c.HW = 1 + (idx%3)/2
	}
	tr.emit(map[string]interface{}{"case": idx, "ev": "reset", "input": c, "nt": len(c.Prog) > 1})
	x := &rgExec{f: flamego.NewWithLogger(io.Discard), prog: c.Prog, hw: c.HW == 2}
	if x.hw {
		// every handler of a chain - group handlers and the route's own alike - goes through the wrapper exactly once
		x.f.HandlerWrapper(func(h flamego.Handler) flamego.Handler {
			return func(c flamego.Context) {
				x.nw++
				_, _ = c.Invoke(h)
			}
		})
	}
	// the final action answers with a body once the handlers of the matched route have run (none of them writes): the
	// request the chain works on is the request that came in - a HEAD request gets no body bytes, however its route was added
	seenMethod := ""
	x.f.Action(func(c flamego.Context) {
		seenMethod = c.Request().Method
		_, _ = c.ResponseWriter().Write([]byte("BODY"))
	})
	panicked := false
	func() {
		defer func() {
			if r := recover(); r != nil {
				panicked = true
			}
		}()
		x.exec(0)
	}()
	tr.emit(map[string]interface{}{"ev": "prog", "prog": c.Prog, "panicked": panicked, "hw": x.hw})
	if panicked {
		return
	}
	for _, p := range rgPaths(c.Prog) {
		for _, m := range []string{"GET", "POST", "HEAD", "PUT", "DELETE"} {
			x.ids, x.rt, x.nw = nil, "", 0
			seenMethod = ""
			w := httptest.NewRecorder()
			req, _ := http.NewRequest(m, p, nil)
			x.f.ServeHTTP(w, req)
			ids := x.ids
			if ids == nil {
				ids = []int{}
			}
			tr.emit(map[string]interface{}{"ev": "req", "m": m, "path": p, "ids": ids, "route": x.rt, "status": w.Code, "nw": x.nw,
				"bodylen": w.Body.Len(), "seen_m": seenMethod})
		}
	}
}

func rgGen(seed int64, n int, args []string, out *json.Encoder) {
	rng := rand.New(rand.NewSource(seed))
	for i := 0; i < n; i++ {
		var prog []rgIns
		nh := 0
		hs := func(k int) []int {
			o := []int{}
			for j := 0; j < k; j++ {
				nh++
				o = append(o, nh)
			}
			return o
		}
		depth := 0
		cdecls := []int{}
		used := map[string]bool{}
		prefix := []string{}
		k := 3 + rng.Intn(12)
		// A group path may end in "/" with the paths inside it written relative to it ("/s/" + "a", "/s/" + ""), and a
		// route inside a group may have the empty path: the flat path is the plain concatenation either way. rel says
		// that the enclosing prefix ends in "/" (so a child must not start with one: "//" would be an empty segment).
		rel := func() bool { return strings.HasSuffix(strings.Join(prefix, ""), "/") }
		rp := func(abs []string) string {
			p := abs[rng.Intn(len(abs))]
			if rel() {
				if rng.Intn(4) == 0 {
					return ""
				}
				return p[1:]
			}
			if strings.Join(prefix, "") != "" && rng.Intn(10) == 0 {
				return ""
			}
			if strings.Join(prefix, "") != "" && rng.Intn(12) == 0 {
				return "/" // the group path with a trailing slash (an extra empty segment): "/g" + "/" is "/g/", not "/g"
			}
			return p
		}
		if pat := rng.Intn(6); pat == 1 {
			// a kept Combo value declared in one scope and given a method inside a group opened later: the route is
			// registered with the groups open at the CALL
			prog = append(prog, rgIns{Op: "cdecl", Cid: 1, Path: "/mm", Hs: hs(rng.Intn(2))},
				rgIns{Op: "group", Path: []string{"/g", "/h", ""}[rng.Intn(3)], Hs: hs(1)},
				rgIns{Op: "ccall", Cid: 1, M: []string{"POST", "PUT", "GET"}[rng.Intn(3)], Hs: hs(1)}, rgIns{Op: "end"})
			cdecls = append(cdecls, 1)
		} else if pat == 0 {
			// a kept Combo value whose GET is added while AutoHead is in one state and whose HEAD is added after it was
			// switched: what counts for a registration is the state at the time of THAT call (flat list: Get; AutoHead; Head)
			first := rng.Intn(2) == 0
			prog = append(prog, rgIns{Op: "autohead", V: first}, rgIns{Op: "cdecl", Cid: 1, Path: "/m", Hs: hs(rng.Intn(2))},
				rgIns{Op: "ccall", Cid: 1, M: "GET", Hs: hs(1)}, rgIns{Op: "autohead", V: !first}, rgIns{Op: "ccall", Cid: 1, M: "HEAD", Hs: hs(1)})
			cdecls = append(cdecls, 1)
		}
		for j := 0; j < k; j++ {
			full := func(p string) string { return strings.Join(prefix, "") + p }
			switch r := rng.Intn(12); {
			case r < 3 && depth < 4:
				g := []string{"/g", "/h", "/k", "/s/", "/t/", ""}[rng.Intn(6)] // "": a group that only contributes handlers
				if rel() {
					g = []string{"g", "h/", "k", "s/"}[rng.Intn(4)]
				}
				prog = append(prog, rgIns{Op: "group", Path: g, Hs: hs(rng.Intn(3))})
				prefix = append(prefix, g)
				depth++
			case r < 5 && depth > 0:
				prog = append(prog, rgIns{Op: "end"})
				prefix = prefix[:len(prefix)-1]
				depth--
			case r < 7:
				p := rp([]string{"/a", "/b", "/d"})
				ms := [][]string{{"POST"}, {"GET", "POST"}, {"PUT", "DELETE", "GET"}}[rng.Intn(3)]
				if rng.Intn(10) == 0 {
					// "*" inside a list stands for all nine methods; every entry of the list is validated (an unknown
					// method or a method registered twice for the path must panic wherever it stands in the list)
					ms = [][]string{{"*"}, {"*", "FOO"}, {"GET", "*"}, {"*", "GET"}, {"BREW"}, {"POST", "FOO"}, {"PATCH", "*"}}[rng.Intn(7)]
					prog = append(prog, rgIns{Op: "route", Ms: ms, Path: p, Hs: hs(1 + rng.Intn(3))})
					continue
				}
				ok := true
				for _, m := range ms {
					if used[m+full(p)] {
						ok = false
					}
				}
				if !ok {
					continue
				}
				for _, m := range ms {
					used[m+full(p)] = true
				}
				prog = append(prog, rgIns{Op: "route", Ms: ms, Path: p, Hs: hs(1 + rng.Intn(3))})
			case r < 8:
				p := rp([]string{"/e", "/f"})
				if used["ANY"+full(p)] {
					continue
				}
				used["ANY"+full(p)] = true
				prog = append(prog, rgIns{Op: "any", Path: p, Hs: hs(1 + rng.Intn(2))})
			case r < 10:
				p := rp([]string{"/x", "/y", "/z"})
				if used["GET"+full(p)] {
					continue
				}
				used["GET"+full(p)] = true
				prog = append(prog, rgIns{Op: "get", Path: p, Hs: hs(1 + rng.Intn(3))})
			case r < 11:
				p := rp([]string{"/c", "/cc"})
				if used["COMBO"+full(p)] {
					continue
				}
				used["COMBO"+full(p)] = true
				var calls []rgCall
				ms := []string{"GET", "POST", "PUT", "DELETE"}
				rng.Shuffle(len(ms), func(a, b int) { ms[a], ms[b] = ms[b], ms[a] })
				for _, m := range ms[:1+rng.Intn(4)] {
					calls = append(calls, rgCall{M: m, Hs: hs(rng.Intn(3))})
				}
				if rng.Intn(8) == 0 {
					calls = append(calls, rgCall{M: calls[0].M, Hs: hs(1)})
				}
				prog = append(prog, rgIns{Op: "combo", Path: p, Hs: hs(rng.Intn(3)), Calls: calls})
			default:
				switch {
				case rng.Intn(3) == 0 && !rel() && len(cdecls) < 2:
					cid := len(cdecls) + 1
					cdecls = append(cdecls, cid)
					prog = append(prog, rgIns{Op: "cdecl", Cid: cid, Path: []string{"/m", "/mm"}[rng.Intn(2)], Hs: hs(rng.Intn(3))})
				case rng.Intn(2) == 0 && !rel() && len(cdecls) > 0:
					// the routes of a Combo are registered where its method is called: with the groups open THERE
					prog = append(prog, rgIns{Op: "ccall", Cid: cdecls[rng.Intn(len(cdecls))], M: []string{"GET", "POST", "PUT", "DELETE", "HEAD", "HEAD"}[rng.Intn(6)], Hs: hs(rng.Intn(3))})
				default:
					prog = append(prog, rgIns{Op: "autohead", V: rng.Intn(2) == 0})
				}
			}
		}
		for depth > 0 {
			prog = append(prog, rgIns{Op: "end"})
			depth--
		}
		_ = out.Encode(rgCase{Prog: prog})
	}
}

func init() { modules["registrar"] = &module{gen: rgGen, replay: rgReplay} }
