package main

// C17: Render. Values are random JSON / XML encodable values, arbitrary bytes and text.

import (
	"bytes"
	"encoding/json"
	"encoding/xml"
	"fmt"
	"io"
	"math/rand"
	"net/http"
	"reflect"

	"github.com/flamego/flamego"
)

type rdCase struct {
	Fmt    string `json:"fmt"`
	Status int    `json:"status"`
	Cs     string `json:"cs"`
	Indent string `json:"indent"`  // indentation configured for the format under test
	Ind2   string `json:"indent2"` // indentation configured for the OTHER encoder (JSONIndent vs XMLIndent)
	Pos    string `json:"pos"`
	VSeed  int64  `json:"vseed,omitempty"`
	Pre    string `json:"pre,omitempty"` // Content-Type already on the response when the handler renders ("-" = none)
	Outer  int    `json:"outer,omitempty"` // 2: an application-wide Renderer with OTHER options runs before the Renderer under test (the nearest one configures the handler); 1: not
	HeadFirst int `json:"headfirst,omitempty"` // 2: the same route is requested with HEAD first (same Flame, same render call), then with GET; 1: not
	Sub    int    `json:"sub,omitempty"` // 1: the handler serves a sub-request (which renders too) through the same Flame first
}

type xmlItem struct {
	ID   int    `xml:"id,attr"`
	Text string `xml:"text"`
}

type xmlDoc struct {
	XMLName xml.Name  `xml:"doc"`
	Title   string    `xml:"title"`
	N       int       `xml:"n"`
	Flag    bool      `xml:"flag"`
	Items   []xmlItem `xml:"items>item"`
}

func randText(r *rand.Rand) string {
	pool := []string{"", "a", "hello", "<&>\"'", "é", "日本", "line\nbreak", " sp ", "\t", "{}[]", "\\", "x y"}
	s := ""
	for i := r.Intn(4); i > 0; i-- {
		s += pool[r.Intn(len(pool))]
	}
	return s
}

func randJSON(r *rand.Rand, depth int) interface{} {
	switch k := r.Intn(7); {
	case k == 0 || depth > 2 && k < 3:
		return randText(r)
	case k == 1:
		return float64(r.Intn(2000) - 1000)
	case k == 2:
		return r.Intn(2) == 0
	case k == 3:
		return nil
	case k == 4:
		n := r.Intn(4)
		a := make([]interface{}, n)
		for i := range a {
			a[i] = randJSON(r, depth+1)
		}
		return a
	default:
		n := r.Intn(4)
		m := map[string]interface{}{}
		for i := 0; i < n; i++ {
			m["k"+randText(r)] = randJSON(r, depth+1)
		}
		return m
	}
}

type jsonRec struct {
	Name  string            `json:"name"`
	Tags  []string          `json:"tags,omitempty"`
	Attrs map[string]string `json:"attrs"`
	Blob  []byte            `json:"blob"`
	skip  int
}

// typedJSON returns encodable values that are not made of interface{} / map / slice: pre-encoded JSON (compact or
// not, with characters the encoder escapes, nil), json.Number, structs with tags, byte slices.
func typedJSON(r *rand.Rand) interface{} {
	switch r.Intn(6) {
	case 0:
		return json.RawMessage(`{ "a" : [1, 2,   "<x>&" ],` + "\n" + `  "b":{"c" :null} }`)
	case 1:
		return json.RawMessage(nil)
	case 2:
		q, _ := json.Marshal(randText(r)) // a valid JSON string, so that the whole is an encodable value
		return json.RawMessage("[ " + string(q) + " ,  true ]")
	case 3:
		return json.Number("12.50")
	case 4:
		return jsonRec{Name: randText(r), Tags: []string{"<a>", randText(r)}, Attrs: map[string]string{"k&": randText(r)}, Blob: []byte(randText(r)), skip: 1}
	default:
		return []interface{}{json.RawMessage(`{"x" :  1}`), &jsonRec{Name: "p"}, map[string]json.RawMessage{"r": json.RawMessage(`[ ]`)}}
	}
}

type rdSpy struct {
	hdr        http.Header
	code       int
	ctypeAtHdr string
	body       bytes.Buffer
}

func (s *rdSpy) Header() http.Header { return s.hdr }
func (s *rdSpy) WriteHeader(c int) {
	if s.code == 0 {
		s.code = c
		s.ctypeAtHdr = s.hdr.Get("Content-Type")
	}
}
func (s *rdSpy) Write(b []byte) (int, error) {
	if s.code == 0 {
		s.WriteHeader(200)
	}
	return s.body.Write(b)
}

func rdReplay(raw json.RawMessage, idx int, tr *traceWriter) {
	var c rdCase
	if err := json.Unmarshal(raw, &c); err != nil {
		panic(err)
	}
	if c.VSeed == 0 {
		c.VSeed = int64(idx)*7907 + int64(envInt("VERIF_SEED", 1))
	}
	if c.Pre == "" {
		c.Pre = []string{"-", "text/html; charset=utf-8", "application/x-custom"}[(c.VSeed/4)%3]
	}
	if c.Outer == 0 {
		c.Outer = 1 + int((c.VSeed/64)%3)/2
	}
	if c.Pos != "after" {
		c.Outer = 1 // "before" asks whether a handler AHEAD of every Renderer gets one: there must be none ahead of it
	}
	if c.HeadFirst == 0 {
		c.HeadFirst = 1 + int((c.VSeed/16)%3)/2
	}
	tr.emit(map[string]interface{}{"case": idx, "ev": "reset", "input": c, "nt": true})
	rng := rand.New(rand.NewSource(c.VSeed))
	opt := flamego.RenderOptions{Charset: c.Cs, JSONIndent: c.Indent, XMLIndent: c.Ind2}
	if c.Fmt == "XML" {
		opt.JSONIndent, opt.XMLIndent = c.Ind2, c.Indent
	}
	f := flamego.NewWithLogger(io.Discard)
	resolved, roundtrip, eqStd := false, false, false
	var doRender func(r flamego.Render)
	var check func(body []byte)
	switch c.Fmt {
	case "JSON":
		v := randJSON(rng, 0)
		if (c.VSeed/256)%4 == 0 {
			v = typedJSON(rng) // values of Go types with an encoding of their own: every encodable value goes through the standard encoder
		}
		doRender = func(r flamego.Render) { r.JSON(c.Status, v) }
		check = func(body []byte) {
			// what the value decodes back to is defined by the standard encoder / decoder pair
			var back, want interface{}
			cmp, _ := json.Marshal(v)
			roundtrip = json.Unmarshal(body, &back) == nil && json.Unmarshal(cmp, &want) == nil && reflect.DeepEqual(back, want)
			var std bytes.Buffer
			enc := json.NewEncoder(&std)
			if c.Indent != "" {
				enc.SetIndent("", c.Indent)
			}
			_ = enc.Encode(v)
			eqStd = bytes.Equal(std.Bytes(), body)
		}
	case "XML":
		v := xmlDoc{Title: randText(rng), N: rng.Intn(100), Flag: rng.Intn(2) == 0}
		for i := rng.Intn(4); i > 0; i-- {
			v.Items = append(v.Items, xmlItem{ID: i, Text: randText(rng)})
		}
		doRender = func(r flamego.Render) { r.XML(c.Status, v) }
		check = func(body []byte) {
			var back xmlDoc
			err := xml.Unmarshal(body, &back)
			back.XMLName = xml.Name{}
			roundtrip = err == nil && xmlEqual(back, v)
			var std bytes.Buffer
			enc := xml.NewEncoder(&std)
			if c.Indent != "" {
				enc.Indent("", c.Indent)
			}
			_ = enc.Encode(v)
			eqStd = bytes.Equal(std.Bytes(), body)
		}
	case "Binary":
		b := make([]byte, rng.Intn(64))
		rng.Read(b)
		if rng.Intn(3) == 0 {
			// bytes that LOOK like something (the signatures content sniffers know): still an opaque byte stream
			sig := []string{"GIF89a", "\xff\xd8\xff\xe0", "\x89PNG\r\n\x1a\n", "BM", "ID3\x03", "OggS\x00", "RIFF\x24\x00\x00\x00WAVEfmt ", "%PDF-1.7",
				"<html><body>", "<?xml version=\"1.0\"?>", "{\"a\":1}", "PK\x03\x04", "\x1f\x8b\x08", "\x00\x00\x01\x00", "\xef\xbb\xbfplain text", "\x00\x00\x00\x18ftypmp42"}[rng.Intn(16)]
			b = append([]byte(sig), b...)
		}
		doRender = func(r flamego.Render) { r.Binary(c.Status, b) }
		check = func(body []byte) { roundtrip = bytes.Equal(body, b); eqStd = roundtrip }
	default:
		b := make([]byte, rng.Intn(32))
		rng.Read(b)
		s := string(b) + randText(rng)
		doRender = func(r flamego.Render) { r.PlainText(c.Status, s) }
		check = func(body []byte) { roundtrip = string(body) == s; eqStd = roundtrip }
	}
	if c.Sub == 0 {
		c.Sub = 2 - int(c.VSeed%2) // 1 or 2 (2 = no sub-request)
	}
	user := func(r flamego.Render) {
		resolved = true
		if c.Sub == 1 {
			// another request passes the same Renderer middleware and renders, before this handler does
			sr, _ := http.NewRequest("GET", "/sub", nil)
			f.ServeHTTP(&rdSpy{hdr: http.Header{}}, sr)
		}
		doRender(r)
	}
	pad := func(fc flamego.Context) {
		// an earlier handler of the same request chose a site-wide default type
		if c.Pre != "-" {
			fc.ResponseWriter().Header().Set("Content-Type", c.Pre)
		}
	}
	if c.Outer == 2 {
		f.Use(flamego.Renderer(flamego.RenderOptions{Charset: "outer-" + c.Cs, JSONIndent: c.Indent + " ", XMLIndent: c.Ind2 + "  "}))
	}
	// the options are handed over in a slice of the caller's own, which the caller re-uses afterwards for another
	// instance: a middleware is configured by what its options were at the time of the call
	optSlice := []flamego.RenderOptions{opt}
	renderer := flamego.Renderer(optSlice...)
	optSlice[0] = flamego.RenderOptions{Charset: "reused", JSONIndent: "\t\t\t", XMLIndent: "\t\t\t"}
	_ = flamego.Renderer(optSlice...)
	// a later handler of the same chain that would add to the body: rendering began the response, it never runs
	tail := func(fc flamego.Context) { _, _ = fc.ResponseWriter().Write([]byte("<TAIL: a handler ran after the response was rendered>")) }
	if (c.VSeed/1024)%3 == 0 {
		// ... also when a middleware in front has mapped a response writer of its own as http.ResponseWriter
		f.Use(func(fc flamego.Context) {
			fc.MapTo(flamego.NewResponseWriter(fc.Request().Method, fc.ResponseWriter()), (*http.ResponseWriter)(nil))
		})
	}
	if c.Pos == "after" {
		f.Use(renderer, pad)
		f.Get("/sub", func(r flamego.Render) { r.PlainText(203, "sub-request") })
		f.Routes("/", "GET,HEAD", pad, user, tail)
	} else {
		f.Use(user, renderer)
		f.Routes("/", "GET,HEAD", pad, tail)
	}
	if c.HeadFirst == 2 {
		// whatever a HEAD response leaves behind (buffers, encoders) must not show in the next response
		func() {
			defer func() { _ = recover() }()
			hr, _ := http.NewRequest("HEAD", "/", nil)
			f.ServeHTTP(&rdSpy{hdr: http.Header{}}, hr)
		}()
	}
	spy := &rdSpy{hdr: http.Header{}}
	req, _ := http.NewRequest("GET", "/", nil)
	panicked := false
	func() {
		defer func() {
			if r := recover(); r != nil {
				panicked = !(c.Pos == "before" && !resolved) // the unresolvable handler surfaces as a panic: expected
			}
		}()
		f.ServeHTTP(spy, req)
	}()
	if resolved {
		check(spy.body.Bytes())
	}
	tr.emit(map[string]interface{}{"ev": "render", "fmt": c.Fmt, "status_in": c.Status, "cs": c.Cs, "indent": c.Indent, "pos": c.Pos,
		"resolved": resolved, "status": spy.code, "ctype": spy.hdr.Get("Content-Type"), "ctype_at_hdr": spy.ctypeAtHdr,
		"roundtrip": roundtrip, "body_eq_std": eqStd, "panicked": panicked})
}

func xmlEqual(a, b xmlDoc) bool {
	if a.Title != b.Title || a.N != b.N || a.Flag != b.Flag || len(a.Items) != len(b.Items) {
		return false
	}
	for i := range a.Items {
		if a.Items[i] != b.Items[i] {
			return false
		}
	}
	return true
}

func rdGen(seed int64, n int, args []string, out *json.Encoder) {
	rng := rand.New(rand.NewSource(seed))
	for i := 0; i < n; i++ {
		st := 200 + rng.Intn(400)
		c := rdCase{Fmt: []string{"JSON", "XML", "Binary", "PlainText"}[rng.Intn(4)], Status: st,
			Cs: []string{"", "latin1", "utf-16", "x"}[rng.Intn(4)], Indent: []string{"", "  ", "\t", "    "}[rng.Intn(4)],
			Ind2: []string{"", " ", "\t\t", "      "}[rng.Intn(4)],
			Pos: []string{"after", "after", "after", "before"}[rng.Intn(4)], VSeed: rng.Int63()}
		_ = out.Encode(c)
	}
	_ = fmt.Sprint
}

func init() { modules["render"] = &module{gen: rdGen, replay: rdReplay} }
