package main

// C18: request accessors and the cookie round trip.

import (
	"encoding/json"
	"fmt"
	"io"
	"math/rand"
	"net/http"
	"net/http/httptest"
	"net/url"
	"strconv"
	"strings"

	"github.com/flamego/flamego"
)

type acCase struct {
	Fn     string `json:"fn"`
	Class  string `json:"class"`            // requested class (TLC cases); the event carries the class the harness derived
	HasDef bool   `json:"hasdef"`
	Raw    string `json:"raw,omitempty"`    // encBytes; set by the random generator
	HasRaw bool   `json:"hasraw,omitempty"` //
	Def    string `json:"def,omitempty"`    // string default (encBytes)
	Cookie bool   `json:"cookie,omitempty"`
}

var acStrDefs = []string{"DEF", "%41", " d ", "%zz", "a b", "x", "longer-default", "0123456789"}

func numClass(fn, raw string) (class, conv string) {
	switch fn {
	case "QueryBool":
		b, err := strconv.ParseBool(raw)
		if err != nil {
			return "malformed", "false"
		}
		return "ok", fmt.Sprint(b)
	case "QueryInt", "ParamInt":
		var i int64
		var err error
		if fn == "QueryInt" {
			i, err = strconv.ParseInt(raw, 10, 0)
		} else {
			var ii int
			ii, err = strconv.Atoi(raw)
			i = int64(ii)
		}
		if err != nil {
			if ne, ok := err.(*strconv.NumError); ok && ne.Err == strconv.ErrRange {
				return "range", fmt.Sprint(i)
			}
			return "malformed", "0"
		}
		return "ok", fmt.Sprint(i)
	case "QueryInt64", "ParamInt64":
		i, err := strconv.ParseInt(raw, 10, 64)
		if err != nil {
			if ne, ok := err.(*strconv.NumError); ok && ne.Err == strconv.ErrRange {
				return "range", fmt.Sprint(i)
			}
			return "malformed", "0"
		}
		return "ok", fmt.Sprint(i)
	case "QueryFloat64":
		f, err := strconv.ParseFloat(raw, 64)
		if err != nil {
			if ne, ok := err.(*strconv.NumError); ok && ne.Err == strconv.ErrRange {
				return "range", fmt.Sprint(f)
			}
			return "malformed", "0"
		}
		return "ok", fmt.Sprint(f)
	}
	return "ok", raw
}

var acValues = map[string][]string{
	"ok:QueryBool": {"true", "1", "T", "false", "0", "TRUE"}, "malformed:QueryBool": {"yes", "2", "tru e", "\x00"},
	"ok:int": {"0", "7", "-12", "+5", "007", "2147483647"}, "malformed:int": {"1.5", "abc", "1e3", " 1", "0x10", "1_000", "\xff", "--1"},
	"range:int": {"9223372036854775808", "-9223372036854775809", "99999999999999999999999"},
	"ok:QueryFloat64": {"1.5", "-0", "1e3", "NaN", "Inf", "0x1p-2", ".5"}, "malformed:QueryFloat64": {"1,5", "abc", "1e", "\x00"},
	"range:QueryFloat64": {"1e999", "-1e999"},
	"ok:str": {"a", "hello world", "%41", "a+b", "\x00\xff", " padded ", "é", "a&b=c", "100%", ";", "\"q\""},
	"ok:QueryTrim": {" ", "\t\n", "   ", " x ", "\u00a0", "a", " padded "},
	"malformed:QueryUnescape": {"%zz", "%", "%4", "100%"}, "ok:QueryUnescape": {"a%20b", "%41", "a+b", "plain", "%E9"},
}

func acPick(rng *rand.Rand, fn, class string) string {
	key := class + ":" + fn
	if _, ok := acValues[key]; !ok {
		switch fn {
		case "QueryInt", "QueryInt64", "ParamInt", "ParamInt64":
			key = class + ":int"
		default:
			key = class + ":str"
		}
	}
	vs := acValues[key]
	if len(vs) == 0 {
		vs = acValues["ok:str"]
	}
	return vs[rng.Intn(len(vs))]
}

func acReplay(raw json.RawMessage, idx int, tr *traceWriter) {
	var c acCase
	if err := json.Unmarshal(raw, &c); err != nil {
		panic(err)
	}
	rng := rand.New(rand.NewSource(int64(idx)*104729 + int64(envInt("VERIF_SEED", 1))))
	if c.Cookie {
		tr.emit(map[string]interface{}{"case": idx, "ev": "reset", "input": raw, "nt": len(c.Raw) > 0})
		acCookie(decBytes(c.Raw), tr)
		return
	}
	variants := 1
	if !c.HasRaw {
		variants = envInt("VERIF_VARIANTS", 3)
	}
	for v := 0; v < variants; v++ {
		cc := c
		if !c.HasRaw {
			switch c.Class {
			case "absent", "empty":
				cc.Raw = ""
			default:
				cc.Raw = encBytes(acPick(rng, c.Fn, c.Class))
			}
			cc.HasRaw = true
			cc.Def = encBytes(acStrDefs[rng.Intn(len(acStrDefs))])
		}
		tr.emit(map[string]interface{}{"case": idx, "ev": "reset", "input": cc, "nt": true})
		acOne(cc, tr)
	}
}

func acOne(c acCase, tr *traceWriter) {
	rawv := decBytes(c.Raw)
	def := decBytes(c.Def)
	absent := c.Class == "absent"
	isParam := strings.HasPrefix(c.Fn, "Param")
	isCookie := c.Fn == "Cookie"
	if isParam && (strings.ContainsAny(rawv, "/%?#") || strings.ContainsAny(rawv, "\x00")) {
		rawv = "p" + strconv.Itoa(len(rawv))
	}
	f := flamego.NewWithLogger(io.Discard)
	var out string
	// an earlier handler of the chain rewrites the query (a rewriting middleware) after having read the old one: what
	// the accessors return is what the request carries WHEN they are called
	rewrite := strings.HasPrefix(c.Fn, "Query") && (len(c.Raw)+len(c.Def)+len(c.Fn))%4 == 1
	realQuery := ""
	h := func(ctx flamego.Context) {
		if rewrite {
			_ = ctx.Query("k")
			_ = ctx.QueryInt("k")
			ctx.Request().URL.RawQuery = realQuery
		}
		switch c.Fn {
		case "Query":
			if c.HasDef {
				out = ctx.Query("k", def)
			} else {
				out = ctx.Query("k")
			}
		case "QueryTrim":
			if c.HasDef {
				out = ctx.QueryTrim("k", def)
			} else {
				out = ctx.QueryTrim("k")
			}
		case "QueryUnescape":
			if c.HasDef {
				out = ctx.QueryUnescape("k", def)
			} else {
				out = ctx.QueryUnescape("k")
			}
		case "QueryStrings":
			var r []string
			if c.HasDef {
				r = ctx.QueryStrings("k", []string{def, "second"})
			} else {
				r = ctx.QueryStrings("k")
			}
			out = strings.Join(r, "\x1f")
		case "QueryBool":
			if c.HasDef {
				out = fmt.Sprint(ctx.QueryBool("k", len(def)%2 == 0))
			} else {
				out = fmt.Sprint(ctx.QueryBool("k"))
			}
		case "QueryInt":
			if c.HasDef {
				out = fmt.Sprint(ctx.QueryInt("k", len(def)-3))
			} else {
				out = fmt.Sprint(ctx.QueryInt("k"))
			}
		case "QueryInt64":
			if c.HasDef {
				out = fmt.Sprint(ctx.QueryInt64("k", int64(len(def)-3)))
			} else {
				out = fmt.Sprint(ctx.QueryInt64("k"))
			}
		case "QueryFloat64":
			if c.HasDef {
				out = fmt.Sprint(ctx.QueryFloat64("k", float64(len(def))-2.5))
			} else {
				out = fmt.Sprint(ctx.QueryFloat64("k"))
			}
		case "Param":
			out = ctx.Param("k")
		case "ParamInt":
			out = fmt.Sprint(ctx.ParamInt("k"))
		case "ParamInt64":
			out = fmt.Sprint(ctx.ParamInt64("k"))
		case "Cookie":
			out = ctx.Cookie("k")
		}
	}
	// an earlier request to the same routes whose handler leaves something behind in the Params map IT was given: the map
	// of a request is that request's own (also on a route without bind parameters)
	poison := true
	hp := func(ctx flamego.Context) {
		if poison {
			if ctx.Params() != nil {
				ctx.Params()["k"] = "91"
				ctx.Params()["route"] = "left-behind"
			}
			return
		}
		h(ctx)
	}
	f.Routes("/q", "GET,POST", hp)
	f.Routes("/p/{k}", "GET,POST", hp)
	for _, m := range []string{"GET", "POST"} {
		for _, pth := range []string{"/q", "/p/77"} {
			wr, _ := http.NewRequest(m, pth, nil)
			f.ServeHTTP(httptest.NewRecorder(), wr)
		}
	}
	poison = false
	req, _ := http.NewRequest("GET", "/q", nil)
	if (len(c.Raw)+len(c.Def)+len(c.Fn))%3 == 0 {
		// a form post whose BODY carries the key too: the accessors read the query string, parameters and cookies only
		req, _ = http.NewRequest("POST", "/q", strings.NewReader("k=7&k=from-body&other=1"))
		req.Header.Set("Content-Type", "application/x-www-form-urlencoded")
	}
	switch {
	case isParam && absent:
	case isParam:
		req.URL.Path = "/p/" + rawv
	case isCookie && !absent:
		req.Header.Set("Cookie", "k="+url.QueryEscape(rawv))
	case !absent:
		req.URL.RawQuery = "k=" + url.QueryEscape(rawv)
	}
	if strings.HasPrefix(c.Fn, "Query") && (len(c.Raw)+2*len(c.Def)+len(c.Fn))%5 == 2 {
		// other pairs of the same query string are malformed: what is well formed is still there
		req.URL.RawQuery = "zz=%zz&" + req.URL.RawQuery + "&a;b=1&%gg=2"
		req.URL.RawQuery = strings.ReplaceAll(req.URL.RawQuery, "&&", "&")
	}
	if strings.HasPrefix(c.Fn, "Query") && (len(c.Raw)+len(c.Def)+2*len(c.Fn))%4 == 1 {
		// neighbours whose KEYS resemble the one asked for (list spellings of other frameworks, other case, padded):
		// they are other keys
		req.URL.RawQuery = strings.TrimPrefix(req.URL.RawQuery+"&k[]=n1&k%5B%5D=n2&K=n3&k%20=n4&k.=n5&kk=n6&k[0]=n7", "&")
	}
	if rewrite {
		realQuery = req.URL.RawQuery
		req.URL.RawQuery = "k=41&k=stale&other=1"
	}
	panicked := false
	func() {
		defer func() {
			if r := recover(); r != nil {
				panicked = true
			}
		}()
		f.ServeHTTP(httptest.NewRecorder(), req)
	}()
	// the class and the standard conversion, derived by the harness
	class, conv, zero, defs := "ok", rawv, "", def
	switch c.Fn {
	case "QueryBool":
		zero, defs = "false", fmt.Sprint(len(def)%2 == 0)
	case "QueryInt", "QueryInt64":
		zero, defs = "0", fmt.Sprint(len(def)-3)
	case "ParamInt", "ParamInt64":
		zero = "0"
	case "QueryFloat64":
		zero, defs = "0", fmt.Sprint(float64(len(def))-2.5)
	case "QueryStrings":
		defs = def + "\x1fsecond"
	}
	switch {
	case absent:
		class = "absent"
	case rawv == "":
		class = "empty"
		if c.Fn == "QueryStrings" {
			class, conv = "ok", ""
		}
	default:
		switch c.Fn {
		case "QueryTrim":
			conv = strings.TrimSpace(rawv)
		case "QueryUnescape":
			u, err := url.QueryUnescape(rawv)
			if err != nil {
				class, conv = "malformed", ""
			} else {
				conv = u
			}
		case "QueryBool", "QueryInt", "QueryInt64", "QueryFloat64", "ParamInt", "ParamInt64":
			class, conv = numClass(c.Fn, rawv)
		}
	}
	tr.emit(map[string]interface{}{"ev": "access", "fn": c.Fn, "class": class, "hasdef": c.HasDef, "def": encBytes(defs), "conv": encBytes(conv),
		"zero": zero, "out": encBytes(out), "panicked": panicked, "raw": encBytes(rawv)})
}

func acCookie(v string, tr *traceWriter) {
	f := flamego.NewWithLogger(io.Discard)
	got := ""
	// the response carries other cookies too, set before and after, whose names resemble the one under test: every
	// SetCookie call adds its own cookie and leaves the others alone
	others := map[string]string{"ck_type": "t", "c": "u", "ckk": "w", "CK": "x"}
	gotOthers := 0
	f.Get("/set", func(c flamego.Context) {
		c.SetCookie(http.Cookie{Name: "ck_type", Value: others["ck_type"], Path: "/"})
		c.SetCookie(http.Cookie{Name: "ckk", Value: others["ckk"], Path: "/"})
		c.SetCookie(http.Cookie{Name: "ck", Value: v, Path: "/"})
		c.SetCookie(http.Cookie{Name: "c", Value: others["c"], Path: "/"})
		c.SetCookie(http.Cookie{Name: "CK", Value: others["CK"], Path: "/"})
	})
	f.Get("/get", func(c flamego.Context) {
		got = c.Cookie("ck")
		for n, want := range others {
			if c.Cookie(n) == want {
				gotOthers++
			}
		}
		if gotOthers != len(others) {
			got = "?a neighbour cookie was lost or changed: " + got
		}
	})
	panicked := false
	func() {
		defer func() {
			if r := recover(); r != nil {
				panicked = true
			}
		}()
		w := httptest.NewRecorder()
		r1, _ := http.NewRequest("GET", "/set", nil)
		f.ServeHTTP(w, r1)
		r2, _ := http.NewRequest("GET", "/get", nil)
		for _, ck := range w.Result().Cookies() { // what a client would send back
			r2.AddCookie(ck)
		}
		if len(v)%2 == 1 {
			// ... as the SECOND of two Cookie header fields (HTTP/2 clients and proxies split them), after an unrelated one
			own := r2.Header.Get("Cookie")
			r2.Header["Cookie"] = []string{"other=1; theme=dark", own}
		}
		f.ServeHTTP(httptest.NewRecorder(), r2)
	}()
	tr.emit(map[string]interface{}{"ev": "cookie", "value": encBytes(v), "got": encBytes(got), "panicked": panicked})
}

func acGen(seed int64, n int, args []string, out *json.Encoder) {
	rng := rand.New(rand.NewSource(seed))
	fns := []string{"Query", "QueryTrim", "QueryStrings", "QueryUnescape", "QueryBool", "QueryInt", "QueryInt64", "QueryFloat64", "Param", "ParamInt", "ParamInt64", "Cookie"}
	randBytes := func() string {
		switch rng.Intn(5) {
		case 0:
			k := rng.Intn(20)
			b := make([]byte, k)
			for i := range b {
				b[i] = byte(rng.Intn(256))
			}
			return string(b)
		case 1:
			return strconv.FormatInt(rng.Int63()-rng.Int63(), 10) + strings.Repeat("0", rng.Intn(12))
		case 2:
			return fmt.Sprint(rng.NormFloat64() * 1e10)
		case 3:
			pool := []string{"", " ", " ", "\t", "%", "%41", "%zz", "a b", "+", "=", "&", ";", ",", "\"", "\\", "\x00", "\x7f", "é", "true", "False", "1", "\t1"}
			return pool[rng.Intn(len(pool))] + pool[rng.Intn(len(pool))]
		default:
			return acPick(rng, "Query", "ok")
		}
	}
	for i := 0; i < n; i++ {
		if rng.Intn(4) == 0 {
			_ = out.Encode(acCase{Cookie: true, Raw: encBytes(randBytes()), HasRaw: true})
			continue
		}
		c := acCase{Fn: fns[rng.Intn(len(fns))], HasDef: rng.Intn(2) == 0, HasRaw: true, Raw: encBytes(randBytes()),
			Def: encBytes(acStrDefs[rng.Intn(len(acStrDefs))]), Class: "ok"}
		if rng.Intn(6) == 0 {
			c.Class, c.Raw = "absent", ""
		}
		_ = out.Encode(c)
	}
}

func init() { modules["access"] = &module{gen: acGen, replay: acReplay} }
