package main

// Handler chain: C03 (order / nesting / stop), C14 (return table), C15 (Recovery).
//
// A case is a chain of handler PROGRAMS (vocabulary of spec/Chain.tla). Every
// program is interpreted by one generic instrumented closure per return shape;
// the closures log enter/exit/next/nextret/write/cancel/panic/punwind events.
// The real flamego.Recovery() runs at the position the case names, wrapped by
// a shim that only logs its enter/next/nextret/exit.

import (
	gocontext "context"
	"encoding/json"
	"errors"
	"fmt"
	"io"
	"math/rand"
	"net"
	"net/http"
	"net/url"
	"os"
	"reflect"
	"strconv"
	"strings"
	"syscall"
	"time"

	"github.com/charmbracelet/log"
	"github.com/flamego/flamego"
)

type cRet struct {
	Shape string `json:"shape"`
	S     string `json:"s"`
	Code  int    `json:"code"`
	Err   string `json:"err"`
}

type cProg struct {
	Ops  []string `json:"ops"`
	Ret  cRet     `json:"ret"`
	Kind string   `json:"kind"`
}

type cVar struct {
	Mw    int    `json:"mw"`    // positions [0,Mw) are application middleware
	Group int    `json:"group"` // next Group positions are group handlers, the rest route handlers
	NF    bool   `json:"nf"`    // serve through the not-found chain instead of a route
	Env   string `json:"env"`
	PK    string `json:"pk"`   // panic value kind
	Fast  int    `json:"fast"` // 0 reflective where possible, 1 prefer the built-in fast paths, 2 user FastInvoker
	Reqs  int    `json:"reqs"` // how many times the request is issued on the same instance
	Bef   int    `json:"bef"`  // number of Flame.Before handlers
	BStop int    `json:"bstop"` // which of them returns true (0 = none)
	Nest  bool   `json:"nest"` // group handlers spread over two nested groups, with a sibling route registered after the one under test
	HS    bool   `json:"hs"`   // middleware installed through Handlers() (replacing a dummy stack) instead of Use()
	Meth  string `json:"meth"` // request method (GET / HEAD / POST): a HEAD response forwards no body but is "written" all the same
	RHL   bool   `json:"rhl"`  // the custom ReturnHandler is mapped on the application AFTER its first request was served (2 requests)
	RH    bool   `json:"rh"`   // a custom ReturnHandler is mapped in the injector: it replaces the default table
	Der   bool   `json:"der"`  // "C" installs a derived request context first and cancels that one
	WK    int    `json:"wk"`   // how "W" touches the response: 0 always WriteHeader(200+h); else per handler WriteHeader / Write(bytes) / Write(nil) / Flush() / io.Copy / WriteHeader(1xx)
	MapW  bool   `json:"mapw"` // a first middleware maps its own flamego.ResponseWriter wrapper as http.ResponseWriter
	Upg   bool   `json:"upg"`  // the request asks for a protocol upgrade (Connection: Upgrade), as a WebSocket handshake does
	Form  int    `json:"form"` // > 0: handlers whose program needs no Context are declared without one (net/http forms, func() T)
	DL    bool   `json:"dl"`   // ... and that derived context ends by an expired deadline (the timeout-middleware case) rather than by cancel()
}

type chainCase struct {
	Fam   string  `json:"fam"`
	N     int     `json:"n"`
	Progs []cProg `json:"progs"`
	Var   *cVar   `json:"var,omitempty"`
}

type chainSpy struct {
	hdr    http.Header
	code   int
	chunks []string
	x      *chainExec
	clen   int64 // the Content-Length declared when the status went out (-1: none), enforced as a net/http connection does
	sent   int64
}

// commit is the moment the header goes out: a declared Content-Length is binding from here on.
func (s *chainSpy) commit(code int) {
	if s.code != 0 {
		return
	}
	s.code, s.clen = code, -1
	if v := s.hdr.Get("Content-Length"); v != "" {
		if n, err := strconv.ParseInt(v, 10, 64); err == nil && n >= 0 {
			s.clen = n
		}
	}
}

func (s *chainSpy) Header() http.Header { return s.hdr }
func (s *chainSpy) WriteHeader(c int) {
	if c < 100 || c > 999 {
		// as the writer of a net/http connection (and httptest.ResponseRecorder) does: nothing is sent
		panic(fmt.Sprintf("invalid WriteHeader code %v %s", c, s.x.marker()))
	}
	s.commit(c)
}
func (s *chainSpy) Write(b []byte) (int, error) {
	s.commit(200)
	if len(b) == 0 {
		return 0, nil
	}
	if s.clen >= 0 && s.sent+int64(len(b)) > s.clen {
		// more than declared: the surplus never reaches the client
		keep := s.clen - s.sent
		if keep > 0 {
			s.sent += keep
			s.chunks = append(s.chunks, encBytes(string(b[:keep])))
		}
		return int(keep), http.ErrContentLength
	}
	s.sent += int64(len(b))
	if s.x.inRec > s.x.inRecNext { // a Recovery instance is running its own code (not the rest of the chain): its page
		if strings.Contains(string(b), s.x.marker()) {
			s.x.detail = true
		}
		s.chunks = append(s.chunks, "<REC>")
	} else {
		s.chunks = append(s.chunks, encBytes(string(b)))
	}
	return len(b), nil
}

// ReadFrom makes the spy an io.ReaderFrom like the response writer of a net/http server connection.
func (s *chainSpy) ReadFrom(r io.Reader) (int64, error) {
	b, err := io.ReadAll(r)
	n, _ := s.Write(b)
	return int64(n), err
}

type chainExec struct {
	c         *chainCase
	v         cVar
	tr        *traceWriter
	entered   map[int]bool
	cancel    gocontext.CancelFunc
	origReq   *http.Request // the request as it was before a "C" op swapped in one with a derived context
	panicLog  bool
	inRec     int
	inRecNext int
	detail    bool
	injPos    int
}

type unmapped struct{ _ int }

func (x *chainExec) ev(m map[string]interface{}) {
	m["ev"] = "c"
	x.tr.emit(m)
}

func (x *chainExec) marker() string {
	switch x.v.PK {
	case "runtime":
		return "assignment to entry in nil map"
	case "abort":
		return "abort Handler"
	case "epipe":
		return "broken pipe"
	}
	return "PANICMARK"
}

func (x *chainExec) panicVal() interface{} {
	switch x.v.PK {
	case "error":
		return errors.New("PANICMARK error")
	case "struct":
		return struct{ A string }{"PANICMARK struct"}
	case "abort":
		return http.ErrAbortHandler
	case "epipe":
		// an error of the network stack (a broken connection - to the client or to anything else the handler talks to)
		return fmt.Errorf("upstream: %w", &net.OpError{Op: "write", Net: "tcp", Err: os.NewSyscallError("write", syscall.EPIPE)})
	}
	return "PANICMARK string"
}

func (x *chainExec) ensurePanicLogged() {
	if !x.panicLog {
		x.panicLog = true
		x.ev(map[string]interface{}{"e": "panic", "h": x.injPos})
	}
}

// body interprets program h. Returns false if the handler was entered a second time.
func (x *chainExec) body(h int, c flamego.Context) {
	p := x.c.Progs[h]
	for _, op := range p.Ops {
		switch op {
		case "W":
			// the ways a handler can start the response: explicit status, body bytes, an empty body write, a flush
			wk := 0
			if x.v.WK > 0 {
				wk = (x.v.WK + h) % 6
			}
			switch wk {
			case 0:
				c.ResponseWriter().WriteHeader(200 + h)
				x.ev(map[string]interface{}{"e": "write", "h": h, "code": 200 + h, "b": ""})
			case 1:
				b := fmt.Sprintf("w%d", h)
				_, _ = c.ResponseWriter().Write([]byte(b))
				x.ev(map[string]interface{}{"e": "write", "h": h, "code": 200, "b": b})
			case 2:
				_, _ = c.ResponseWriter().Write(nil)
				x.ev(map[string]interface{}{"e": "write", "h": h, "code": 200, "b": ""})
			case 5:
				// an informational / protocol-switching status is a status like any other to the writer: the response has begun
				code := []int{101, 103}[h%2]
				c.ResponseWriter().WriteHeader(code)
				x.ev(map[string]interface{}{"e": "write", "h": h, "code": code, "b": ""})
			case 4:
				// streamed with io.Copy from a source without WriteTo: Copy looks for ReadFrom on the destination
				// (the underlying writer of this harness has one, as the writer of a real server connection does)
				b := fmt.Sprintf("c%d", h)
				_, _ = io.Copy(c.ResponseWriter(), io.LimitReader(strings.NewReader(b), 64))
				x.ev(map[string]interface{}{"e": "write", "h": h, "code": 200, "b": b})
			default:
				c.ResponseWriter().Flush()
				x.ev(map[string]interface{}{"e": "write", "h": h, "code": 200, "b": ""})
			}
		case "N":
			x.ev(map[string]interface{}{"e": "next", "h": h})
			c.Next()
			x.ev(map[string]interface{}{"e": "nextret", "h": h})
		case "R":
			c.Map(customRH)
			x.ev(map[string]interface{}{"e": "setrh", "h": h})
		case "U":
			// the middleware that installed a derived (and meanwhile cancelled) context puts the original request back:
			// from here on the request is live again
			if x.origReq != nil {
				c.Request().Request = x.origReq
				x.origReq = nil
				x.ev(map[string]interface{}{"e": "uncancel", "h": h})
			}
		case "C":
			if x.v.Der && x.origReq == nil {
				x.origReq = c.Request().Request
			}
			if x.v.Der {
				// the usual timeout-middleware pattern: replace the request by one with a derived context, then cancel it
				ctx, cancel := gocontext.WithCancel(c.Request().Context())
				if x.v.DL {
					ctx, cancel = gocontext.WithDeadline(c.Request().Context(), time.Unix(1, 0))
					defer cancel()
				}
				c.Request().Request = c.Request().Request.WithContext(ctx)
				if !x.v.DL {
					cancel()
				}
			} else {
				x.cancel()
			}
			x.ev(map[string]interface{}{"e": "cancel", "h": h})
		case "P":
			x.panicLog = true
			x.ev(map[string]interface{}{"e": "panic", "h": h})
			if x.v.PK == "runtime" {
				var m map[string]int
				m["x"] = 1
			}
			if x.v.PK == "deepnosrc" {
				deepPanic(150, x.panicVal())
			}
			if x.v.PK == "hook" && c != nil && !c.ResponseWriter().Written() {
				// the panic is raised by a function registered to run before the first write, i.e. from INSIDE the
				// handler's own WriteHeader call and before any status went out
				c.ResponseWriter().Before(func(flamego.ResponseWriter) { panic(x.panicVal()) })
				c.ResponseWriter().WriteHeader(200 + h)
			}
			if x.v.PK == "badcode" && c != nil && !c.ResponseWriter().Written() {
				// the panic is raised by the UNDERLYING writer, which refuses the status code the handler asks for
				// (a handler returning (0, "...") gets there too): no status went out
				c.ResponseWriter().WriteHeader(0)
			}
			panic(x.panicVal())
		}
	}
}

func (x *chainExec) run(h int, c flamego.Context) (ok bool) {
	x.ev(map[string]interface{}{"e": "enter", "h": h})
	if x.entered[h] {
		return false // entered twice: the monitor has seen it; do not recurse
	}
	x.entered[h] = true
	defer func() {
		if r := recover(); r != nil {
			x.ensurePanicLogged()
			x.ev(map[string]interface{}{"e": "punwind", "h": h})
			panic(r)
		}
	}()
	x.body(h, c)
	x.ev(map[string]interface{}{"e": "exit", "h": h, "ret": x.c.Progs[h].Ret})
	return true
}

var customRH = flamego.ReturnHandler(func(c flamego.Context, vals []reflect.Value) {
	c.ResponseWriter().WriteHeader(299)
	_, _ = c.ResponseWriter().Write([]byte("RH"))
})

type userFast func(c flamego.Context) (int, string)

func (f userFast) Invoke(args []interface{}) ([]reflect.Value, error) {
	a, b := f(args[0].(flamego.Context))
	return []reflect.Value{reflect.ValueOf(a), reflect.ValueOf(b)}, nil
}

type userFastNone func(c flamego.Context)

func (f userFastNone) Invoke(args []interface{}) ([]reflect.Value, error) {
	f(args[0].(flamego.Context))
	return nil, nil
}

type myErr struct{ s string }

func (e *myErr) Error() string { return e.s }

// non-nil errors whose dynamic value is the zero value of its type, or a nil pointer
type zeroStructErr struct{}

func (zeroStructErr) Error() string { return "<zero-struct>" }

type zeroIntErr int

func (zeroIntErr) Error() string { return "<zero-int>" }

type nilSafeErr struct{ _ int }

func (*nilSafeErr) Error() string { return "<typed-nil>" }

func mkErr(s string, alt bool) error {
	switch s {
	case "":
		return nil
	case "<zero-struct>":
		return zeroStructErr{}
	case "<zero-int>":
		return zeroIntErr(0)
	case "<typed-nil>":
		return (*nilSafeErr)(nil)
	}
	if alt {
		return &myErr{s}
	}
	return errors.New(s)
}

// handler builds the Go function for position h: its signature follows the
// return shape, so that flamego's own return handling is what is observed.
func (x *chainExec) handler(h int) flamego.Handler {
	p := x.c.Progs[h]
	r := p.Ret
	s := decBytes(r.S)
	alt := h%2 == 1
	switch p.Kind {
	case "inj":
		return func(u unmapped) {}
	case "rec":
		rec := flamego.Recovery().(flamego.LoggerInvoker)
		return flamego.LoggerInvoker(func(c flamego.Context, l *log.Logger) {
			x.ev(map[string]interface{}{"e": "enter", "h": h})
			if x.entered[h] {
				return
			}
			x.entered[h] = true
			x.ev(map[string]interface{}{"e": "next", "h": h})
			x.inRec++
			w := &ctxWrap{Context: c, x: x}
			rec(w, l)
			x.inRec--
			if !w.normal {
				x.ensurePanicLogged()
			}
			x.panicLog = false
			x.ev(map[string]interface{}{"e": "nextret", "h": h})
			x.ev(map[string]interface{}{"e": "exit", "h": h, "ret": cRet{Shape: "none"}})
		})
	}
	noCtx := len(p.Ops) == 0
	onlyP := len(p.Ops) == 1 && p.Ops[0] == "P"
	// Forms that take no Context (the body of such a program needs none): the plain net/http forms for handlers without
	// a result, and the parameterless form func() T for every result shape. Any of them may have a fast path of its own.
	if x.v.Form > 0 && (noCtx || onlyP) && r.Shape == "none" {
		if alt {
			return http.HandlerFunc(func(http.ResponseWriter, *http.Request) { x.run(h, nil) })
		}
		return func(http.ResponseWriter, *http.Request) { x.run(h, nil) }
	}
	if x.v.Form > 0 && noCtx && r.Shape != "none" && r.Shape != "int_string" {
		if f := x.noArgForm(h, r, s, alt); f != nil {
			return f
		}
	}
	switch r.Shape {
	case "none":
		if x.v.Fast == 2 {
			return userFastNone(func(c flamego.Context) { x.run(h, c) })
		}
		if x.v.Fast == 0 {
			return func(c flamego.Context, _ *http.Request) { x.run(h, c) } // reflective path
		}
		return func(c flamego.Context) { x.run(h, c) } // built-in ContextInvoker fast path
	case "string":
		return func(c flamego.Context) string {
			if !x.run(h, c) {
				return ""
			}
			return s
		}
	case "bytes":
		return func(c flamego.Context) []byte {
			if !x.run(h, c) {
				return nil
			}
			if s == "" && alt {
				return []byte{}
			}
			if s == "" {
				return nil
			}
			return []byte(s)
		}
	case "error":
		return func(c flamego.Context) error {
			if !x.run(h, c) {
				return nil
			}
			return mkErr(decBytes(r.Err), alt)
		}
	case "ptr_string":
		return func(c flamego.Context) *string {
			if !x.run(h, c) {
				return nil
			}
			return &s
		}
	case "ptr_err":
		// the declared result type is the concrete pointer type (its Error method has a pointer receiver)
		// (always a non-nil pointer: whether a NIL pointer of such a type is "a nil result" or "a non-nil error" is a question the
		// property leaves open - Go itself answers "non-nil error" - so that case is not part of the checked universe)
		return func(c flamego.Context) *myErr {
			x.run(h, c)
			return &myErr{decBytes(r.Err)}
		}
	case "int_ptr_err":
		return func(c flamego.Context) (int, *myErr) {
			x.run(h, c)
			return r.Code, &myErr{decBytes(r.Err)}
		}
	case "ptr_bytes":
		return func(c flamego.Context) *[]byte {
			if !x.run(h, c) || s == "" {
				return nil
			}
			b := []byte(s)
			return &b
		}
	case "any_string":
		return func(c flamego.Context) interface{} {
			if !x.run(h, c) {
				return nil
			}
			return s
		}
	case "any_bytes":
		return func(c flamego.Context) interface{} {
			if !x.run(h, c) || s == "" {
				return nil
			}
			return []byte(s)
		}
	case "int_ptr_bytes":
		return func(c flamego.Context) (int, *[]byte) {
			x.run(h, c)
			b := []byte(s)
			return r.Code, &b
		}
	case "int_string":
		if noCtx && x.v.Fast == 1 {
			return func() (int, string) { // the built-in fast path for func() (int, string)
				x.run(h, nil)
				return r.Code, s
			}
		}
		if x.v.Fast == 2 {
			return userFast(func(c flamego.Context) (int, string) {
				x.run(h, c)
				return r.Code, s
			})
		}
		return func(c flamego.Context) (int, string) {
			x.run(h, c)
			return r.Code, s
		}
	case "int_bytes":
		return func(c flamego.Context) (int, []byte) {
			x.run(h, c)
			return r.Code, []byte(s)
		}
	case "int_error":
		return func(c flamego.Context) (int, error) {
			x.run(h, c)
			return r.Code, mkErr(decBytes(r.Err), alt)
		}
	case "string_error":
		return func(c flamego.Context) (string, error) {
			if !x.run(h, c) {
				return "", nil
			}
			return s, mkErr(decBytes(r.Err), alt)
		}
	case "bytes_error":
		return func(c flamego.Context) ([]byte, error) {
			if !x.run(h, c) {
				return nil, nil
			}
			return []byte(s), mkErr(decBytes(r.Err), alt)
		}
	}
	panic("unknown shape " + r.Shape)
}

// noArgForm builds func() T for the result shape (exactly that function type, as a user would declare it).
func (x *chainExec) noArgForm(h int, r cRet, s string, alt bool) flamego.Handler {
	errT := reflect.TypeOf((*error)(nil)).Elem()
	var out []reflect.Type
	strT, bytT, intT := reflect.TypeOf(""), reflect.TypeOf([]byte(nil)), reflect.TypeOf(0)
	bytesVal := func() reflect.Value {
		if s == "" && !alt {
			return reflect.Zero(bytT)
		}
		return reflect.ValueOf([]byte(s))
	}
	errVal := func() reflect.Value {
		if e := mkErr(decBytes(r.Err), alt); e != nil {
			return reflect.ValueOf(&e).Elem()
		}
		return reflect.Zero(errT)
	}
	var vals func() []reflect.Value
	switch r.Shape {
	case "string":
		out, vals = []reflect.Type{strT}, func() []reflect.Value { return []reflect.Value{reflect.ValueOf(s)} }
	case "bytes":
		out, vals = []reflect.Type{bytT}, func() []reflect.Value { return []reflect.Value{bytesVal()} }
	case "error":
		out, vals = []reflect.Type{errT}, func() []reflect.Value { return []reflect.Value{errVal()} }
	case "int_bytes":
		out, vals = []reflect.Type{intT, bytT}, func() []reflect.Value { return []reflect.Value{reflect.ValueOf(r.Code), reflect.ValueOf([]byte(s))} }
	case "int_error":
		out, vals = []reflect.Type{intT, errT}, func() []reflect.Value { return []reflect.Value{reflect.ValueOf(r.Code), errVal()} }
	case "string_error":
		out, vals = []reflect.Type{strT, errT}, func() []reflect.Value { return []reflect.Value{reflect.ValueOf(s), errVal()} }
	case "bytes_error":
		out, vals = []reflect.Type{bytT, errT}, func() []reflect.Value { return []reflect.Value{reflect.ValueOf([]byte(s)), errVal()} }
	default:
		return nil
	}
	zero := func() []reflect.Value {
		z := make([]reflect.Value, len(out))
		for i, t := range out {
			z[i] = reflect.Zero(t)
		}
		return z
	}
	twoVal := len(out) == 2 && out[0] == intT
	return reflect.MakeFunc(reflect.FuncOf(nil, out, false), func([]reflect.Value) []reflect.Value {
		if !x.run(h, nil) && !twoVal {
			return zero()
		}
		return vals()
	}).Interface()
}

type ctxWrap struct {
	flamego.Context
	x      *chainExec
	normal bool
}

func (w *ctxWrap) Next() {
	w.x.inRecNext++
	defer func() { w.x.inRecNext-- }()
	w.Context.Next()
	w.normal = true
}

func chainVarFor(c *chainCase, idx int) cVar {
	rng := rand.New(rand.NewSource(int64(idx)*7919 + int64(envInt("VERIF_SEED", 1))))
	n := c.N
	v := cVar{Env: []string{"development", "production", "test"}[rng.Intn(3)],
		PK: []string{"string", "error", "runtime", "struct", "abort", "deepnosrc", "hook", "epipe", "badcode"}[rng.Intn(9)], Fast: rng.Intn(3), Reqs: 1 + rng.Intn(2)}
	v.Der = rng.Intn(2) == 0
	v.DL = v.Der && rng.Intn(2) == 0
	v.WK = rng.Intn(7)
	v.Form = rng.Intn(2)
	v.Upg = rng.Intn(5) == 0
	v.MapW = rng.Intn(4) == 0
	v.RH = rng.Intn(5) == 0
	if !v.RH && rng.Intn(5) == 0 {
		v.RHL = true
	}
	v.Meth = []string{"GET", "GET", "HEAD", "POST"}[rng.Intn(4)]
	v.HS = rng.Intn(3) == 0
	v.Nest = rng.Intn(2) == 0
	if rng.Intn(4) == 0 {
		v.Bef = 1 + rng.Intn(2)
		if rng.Intn(3) == 0 {
			v.BStop = 1 + rng.Intn(v.Bef)
		}
	}
	v.Mw = rng.Intn(n + 1)
	v.Group = rng.Intn(n - v.Mw + 1)
	if rng.Intn(6) == 0 {
		v.NF = true
	}
	return v
}

func chainReplay(raw json.RawMessage, idx int, tr *traceWriter) {
	var c chainCase
	if err := json.Unmarshal(raw, &c); err != nil {
		panic(err)
	}
	var in interface{} = raw
	if c.Var == nil {
		v := chainVarFor(&c, idx)
		c.Var = &v
		in = c
	}
	nt := false
	for _, p := range c.Progs {
		if len(p.Ops) > 0 || p.Ret.Shape != "none" {
			nt = true
		}
	}
	tr.emit(map[string]interface{}{"case": idx, "ev": "reset", "input": in, "nt": nt})
	x := &chainExec{c: &c, v: *c.Var, tr: tr, injPos: -1}
	kinds := make([]string, len(c.Progs))
	for i, p := range c.Progs {
		kinds[i] = p.Kind
		if p.Kind == "inj" {
			x.injPos = i
		}
	}
	n := c.N
	v := x.v
	f := flamego.NewWithLogger(io.Discard)
	if v.RH {
		f.Map(customRH)
	}
	hs := make([]flamego.Handler, n)
	for i := 0; i < n; i++ {
		hs[i] = x.handler(i)
	}
	for b := 1; b <= v.Bef; b++ {
		b := b
		f.Before(func(http.ResponseWriter, *http.Request) bool {
			x.ev(map[string]interface{}{"e": "before", "i": b, "stop": b == v.BStop})
			return b == v.BStop
		})
	}
	if v.Fast == 0 {
		// a handler wrapper (applied to route / not-found handlers that are not fast invokers): the identity here
		f.HandlerWrapper(func(h flamego.Handler) flamego.Handler { return h })
	}
	// the middleware is handed over in a slice of the caller's own (with spare capacity); afterwards the caller scribbles
	// over that slice - what the application runs is what it was given at the time of the call
	mwArg := append(make([]flamego.Handler, 0, v.Mw+4), hs[:v.Mw]...)
	if v.MapW {
		// a silent middleware in front of everything maps a response writer of its OWN as http.ResponseWriter (what a
		// compressing / buffering middleware does, with the documented NewResponseWriter construct); the handlers of this
		// harness keep writing through the writer of the context - whether the response has begun is a fact about that one
		mwArg = append([]flamego.Handler{func(c flamego.Context) {
			c.MapTo(flamego.NewResponseWriter(c.Request().Method, c.ResponseWriter()), (*http.ResponseWriter)(nil))
		}}, mwArg...)
	}
	if v.HS {
		f.Use(func() { panic("replaced by Handlers()") }) // must be gone after Handlers()
		f.Handlers(mwArg...)
	} else {
		f.Use(mwArg...)
	}
	for i := range mwArg {
		mwArg[i] = func(c flamego.Context) { x.ev(map[string]interface{}{"e": "enter", "h": 98}) }
	}
	_ = append(mwArg, func(c flamego.Context) { x.ev(map[string]interface{}{"e": "enter", "h": 97}) })
	if c.Progs[n].Kind != "nil" {
		f.Action(x.handler(n))
	}
	rest := hs[v.Mw:]
	if v.NF {
		f.NotFound(rest...)
	} else {
		g := v.Group
		if g > len(rest) {
			g = len(rest)
		}
		meth := v.Meth
		if meth == "" {
			meth = "GET"
		}
		// a sibling route registered AFTER the route under test: its handler must never show up in this chain
		sibling := func() {
			f.Route(meth, "/sibling", []flamego.Handler{func(c flamego.Context) { x.ev(map[string]interface{}{"e": "enter", "h": 99}) }})
		}
		switch {
		case g >= 2 && v.Nest:
			k := 1 + (n+g)%(g-1)
			f.Group("/g", func() {
				f.Group("", func() { f.Route(meth, "/r", rest[g:]); sibling() }, rest[k:g]...)
			}, rest[:k]...)
		case g > 0:
			f.Group("/g", func() { f.Route(meth, "/r", rest[g:]); sibling() }, rest[:g]...)
		default:
			f.Route(meth, "/g/r", rest)
		}
	}
	switch v.Env {
	case "production":
		flamego.SetEnv(flamego.EnvTypeProd)
	case "test":
		flamego.SetEnv(flamego.EnvTypeTest)
	default:
		flamego.SetEnv(flamego.EnvTypeDev)
	}
	reqs := v.Reqs
	if reqs < 1 {
		reqs = 1
	}
	if v.RHL {
		reqs = 2
	}
	rh := v.RH
	for q := 0; q < reqs; q++ {
		if v.RHL && q == 1 {
			// a set-up call made after traffic has started: the service registered last is the one later requests get
			f.Map(customRH)
			rh = true
		}
		x.entered = map[int]bool{}
		x.panicLog = false
		x.detail = false
		x.inRec, x.inRecNext = 0, 0
		x.origReq = nil
		meth := v.Meth
		if meth == "" {
			meth = "GET"
		}
		tr.emit(map[string]interface{}{"ev": "req", "kinds": kinds, "n": n, "env": v.Env, "rh": rh, "method": meth})
		spy := &chainSpy{hdr: http.Header{}, x: x}
		ctx, cancel := gocontext.WithCancel(gocontext.Background())
		x.cancel = cancel
		path := "/g/r"
		if v.NF {
			path = "/nowhere"
		}
		req := (&http.Request{Method: meth, URL: &url.URL{Path: path}, Header: http.Header{}, Proto: "HTTP/1.1", ProtoMajor: 1, ProtoMinor: 1, Host: "x"}).WithContext(ctx)
		if v.Upg {
			req.Header.Set("Connection", "Upgrade")
			req.Header.Set("Upgrade", "websocket")
		}
		done := make(chan struct{})
		go func() {
			defer close(done)
			defer func() {
				if r := recover(); r != nil {
					x.ensurePanicLogged()
					x.ev(map[string]interface{}{"e": "escape"})
				}
			}()
			f.ServeHTTP(spy, req)
		}()
		select {
		case <-done:
		case <-time.After(time.Duration(envInt("VERIF_HANG_SECONDS", 20)) * time.Second):
			// ServeHTTP does not return: record it and stop the harness (the goroutine cannot be killed); the cases
			// after this one are not run - the verdict on this one stands on its own
			x.ev(map[string]interface{}{"e": "hang"})
			tr.flushAndExit()
		}
		cancel()
		chunks := spy.chunks
		if chunks == nil {
			chunks = []string{}
		}
		x.ev(map[string]interface{}{"e": "end", "status": spy.code, "body": chunks, "detail": x.detail})
	}
}

var chainRetPool = []cRet{
	{Shape: "none"}, {Shape: "none"}, {Shape: "none"},
	{Shape: "string", S: "hello"}, {Shape: "string"}, {Shape: "bytes", S: "\x00\xff raw"}, {Shape: "bytes"},
	{Shape: "error", Err: "boom"}, {Shape: "error"}, {Shape: "ptr_string", S: "ptr"},
	{Shape: "int_string", Code: 201, S: "created"}, {Shape: "int_string", Code: 404}, {Shape: "int_bytes", Code: 599, S: "b"},
	{Shape: "int_bytes", Code: 204}, {Shape: "int_error", Code: 418, Err: "teapot"}, {Shape: "int_error", Code: 200},
	{Shape: "string_error", S: "s"}, {Shape: "string_error", S: "s", Err: "e"}, {Shape: "string_error"},
	{Shape: "bytes_error", S: "b"}, {Shape: "bytes_error", Err: "e2"},
	{Shape: "ptr_bytes", S: "pb"}, {Shape: "ptr_bytes"}, {Shape: "ptr_string"}, {Shape: "any_string", S: "as"}, {Shape: "any_bytes", S: "ab"}, {Shape: "any_string"},
	{Shape: "int_ptr_bytes", Code: 202, S: "ipb"}, {Shape: "ptr_err", Err: "pe"}, {Shape: "int_ptr_err", Code: 409, Err: "ipe"},
	{Shape: "error", Err: "<zero-struct>"}, {Shape: "int_error", Code: 503, Err: "<zero-int>"}, {Shape: "string_error", S: "s", Err: "<typed-nil>"},
	{Shape: "bytes_error", Err: "<zero-struct>"}, {Shape: "error", Err: "<typed-nil>"}, {Shape: "string_error", Err: "<zero-int>"},
}

func chainGen(seed int64, n int, args []string, out *json.Encoder) {
	kind := "chain"
	if len(args) > 0 {
		kind = args[0]
	}
	rng := rand.New(rand.NewSource(seed))
	for i := 0; i < n; i++ {
		depth := 1 + rng.Intn(8)
		c := chainCase{Fam: "rand-" + kind, N: depth}
		recAt := -1
		if kind == "rec" || rng.Intn(4) == 0 {
			recAt = rng.Intn(depth)
		}
		// a second Recovery instance further down the same chain (application-wide + group or route level), with
		// whatever lies between them: each one answers for what is below it
		recAt2 := -1
		if kind == "rec" && depth >= 3 && rng.Intn(3) == 0 {
			recAt2 = rng.Intn(depth)
		}
		injAt := -1
		if kind == "rec" && rng.Intn(4) == 0 {
			injAt = rng.Intn(depth + 1)
		}
		for h := 0; h <= depth; h++ {
			if h == recAt || h == recAt2 {
				c.Progs = append(c.Progs, cProg{Ops: []string{"N"}, Ret: cRet{Shape: "none"}, Kind: "rec"})
				continue
			}
			if h == injAt {
				c.Progs = append(c.Progs, cProg{Ops: []string{}, Ret: cRet{Shape: "none"}, Kind: "inj"})
				continue
			}
			if h == depth && rng.Intn(3) == 0 {
				c.Progs = append(c.Progs, cProg{Ops: []string{}, Ret: cRet{Shape: "none"}, Kind: "nil"})
				continue
			}
			k := rng.Intn(6)
			ops := []string{}
			for j := 0; j < k; j++ {
				switch r := rng.Intn(20); {
				case r < 9:
					ops = append(ops, "N")
				case r < 14:
					ops = append(ops, "W")
				case r < 16:
					ops = append(ops, "C")
					if rng.Intn(3) == 0 {
						ops = append(ops, "N", "U") // cancel a derived context, let the rest run (it must not), restore
					}
				case r == 19 && kind == "ret":
					ops = append(ops, "R")
				case r < 18 && (kind == "rec"):
					ops = append(ops, "P")
				default:
					ops = append(ops, "N")
				}
			}
			ret := cRet{Shape: "none"}
			if rng.Intn(3) == 0 || kind == "ret" {
				ret = chainRetPool[rng.Intn(len(chainRetPool))]
				if strings.HasPrefix(ret.Shape, "int_") && rng.Intn(2) == 0 {
					ret.Code = 100 + rng.Intn(500)
					if ret.Code < 200 {
						ret.Code += 100
					}
				}
				ret.S = encBytes(ret.S)
			}
			c.Progs = append(c.Progs, cProg{Ops: ops, Ret: ret, Kind: "prog"})
		}
		v := chainVarFor(&c, i+int(seed)*1000)
		c.Var = &v
		_ = out.Encode(c)
	}
}

func init() {
	modules["chain"] = &module{gen: chainGen, replay: chainReplay}
}
