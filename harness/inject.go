package main

// C04: dependency injection. A case is a registration history over three
// scopes (vocabulary of spec/InjectP.tla); after it every signature of the menu
// is invoked in every scope, reflectively and through FastInvoker twins, on
// real inject.Injector chains and on the Flame -> request context chain.

import (
	"errors"
	"encoding/json"
	"fmt"
	"io"
	"math/rand"
	"net/http"
	"net/http/httptest"
	"reflect"
	"regexp"
	"strings"

	"github.com/charmbracelet/log"
	"github.com/flamego/flamego"
	"github.com/flamego/flamego/inject"
)

type T1 struct{ ID int }

func (T1) M1() {}
func (T1) M2() {}

type T2 struct{ ID int }

func (T2) M2() {}

type N1 string

func (N1) M2() {}

type I1 interface{ M1() }
type I2 interface{ M2() }
type I3 interface {
	M1()
	M2()
}

// E0 has an empty method set: every mapped type implements it. (Only asked for on plain injector chains: the request
// scope of a Flame holds values of its own - context, writer, request, logger - that implement it as well.)
type E0 interface{}

var injTypes = map[string]reflect.Type{
	"T1": reflect.TypeOf(T1{}), "PT1": reflect.TypeOf(&T1{}), "T2": reflect.TypeOf(T2{}), "N1": reflect.TypeOf(N1("")),
	"CH": reflect.TypeOf((chan int)(nil)), "RCH": reflect.TypeOf((<-chan int)(nil)),
	"I1": reflect.TypeOf((*I1)(nil)).Elem(), "I2": reflect.TypeOf((*I2)(nil)).Elem(), "I3": reflect.TypeOf((*I3)(nil)).Elem(),
	"E0": reflect.TypeOf((*E0)(nil)).Elem(),
}

func injTypeName(s string) string {
	for k, t := range injTypes {
		if t.String() == s {
			return k
		}
	}
	return "?" + s
}

type injVal struct {
	Ct string `json:"ct"`
	ID int    `json:"id"`
}

func mkVal(ct string, id int) interface{} {
	switch ct {
	case "T1":
		return T1{id}
	case "PT1":
		return &T1{id}
	case "T2":
		return T2{id}
	case "N1":
		return N1(fmt.Sprintf("n%d", id))
	case "CH":
		return make(chan int, id)
	}
	panic("mkVal " + ct)
}

func idVal(x interface{}) injVal {
	switch v := x.(type) {
	case T1:
		return injVal{"T1", v.ID}
	case *T1:
		if v == nil {
			return injVal{"none", 0}
		}
		return injVal{"PT1", v.ID}
	case T2:
		return injVal{"T2", v.ID}
	case N1:
		var id int
		if _, err := fmt.Sscanf(string(v), "n%d", &id); err != nil {
			return injVal{"none", 0}
		}
		return injVal{"N1", id}
	case chan int:
		if v == nil {
			return injVal{"none", 0}
		}
		return injVal{"CH", cap(v)}
	case <-chan int:
		if v == nil {
			return injVal{"none", 0}
		}
		return injVal{"CH", cap(v)}
	case nil:
		return injVal{"none", 0}
	}
	return injVal{"?", 0}
}

type injOp struct {
	Op string `json:"op"`
	S  int    `json:"s"`
	K  string `json:"k"`
	Ct string `json:"ct"`
	ID int    `json:"id"`
}

type injCase struct {
	Parent []int   `json:"parent"`
	Hist   []injOp `json:"hist"`
	Via    string  `json:"via,omitempty"`
	Probe  string  `json:"probe,omitempty"` // flame via: additionally re-map a service of the request scope ("ctx" / "svc") or look at the result values the ReturnHandler receives ("ret"), "-" = no
}

var injSigs = [][]string{
	{}, {"T1"}, {"PT1"}, {"I1"}, {"I2"}, {"I3"}, {"N1", "CH"}, {"RCH"}, {"T1", "I2"}, {"I1", "T2", "I2"},
	{"E0"}, {"T2", "E0"}, // plain injector chains only (injSigsFlame excludes them)
}

const injSigsFlame = 10

type injRec struct {
	calls int
	args  []injVal
}

func sigRets(k int) []string {
	if k%2 == 1 {
		return []string{fmt.Sprint(200 + k), "r"}
	}
	return []string{}
}

// plainFn builds the reflective handler for signature k.
func plainFn(k int, rec *injRec) interface{} {
	var in []reflect.Type
	for _, t := range injSigs[k] {
		in = append(in, injTypes[t])
	}
	var out []reflect.Type
	if k%2 == 1 {
		out = []reflect.Type{reflect.TypeOf(0), reflect.TypeOf("")}
	}
	ft := reflect.FuncOf(in, out, false)
	return reflect.MakeFunc(ft, func(args []reflect.Value) []reflect.Value {
		rec.calls++
		rec.args = nil
		for _, a := range args {
			rec.args = append(rec.args, idVal(a.Interface()))
		}
		if k%2 == 1 {
			return []reflect.Value{reflect.ValueOf(200 + k), reflect.ValueOf("r")}
		}
		return nil
	}).Interface()
}

// FastInvoker twins: func types with the same parameter lists and an Invoke method.
var fastRec *injRec

func fastBody(k int, args []interface{}) ([]reflect.Value, error) {
	fastRec.calls++
	fastRec.args = nil
	for _, a := range args {
		fastRec.args = append(fastRec.args, idVal(a))
	}
	if k%2 == 1 {
		return []reflect.Value{reflect.ValueOf(200 + k), reflect.ValueOf("r")}, nil
	}
	return nil, nil
}

type fs0 func()
type fs1 func(T1) (int, string)
type fs2 func(*T1)
type fs3 func(I1) (int, string)
type fs4 func(I2)
type fs5 func(I3) (int, string)
type fs6 func(N1, chan int)
type fs7 func(<-chan int) (int, string)
type fs8 func(T1, I2)
type fs9 func(I1, T2, I2) (int, string)
type fs10 func(E0)
type fs11 func(T2, E0) (int, string)

func (fs0) Invoke(a []interface{}) ([]reflect.Value, error) { return fastBody(0, a) }
func (fs1) Invoke(a []interface{}) ([]reflect.Value, error) { return fastBody(1, a) }
func (fs2) Invoke(a []interface{}) ([]reflect.Value, error) { return fastBody(2, a) }
func (fs3) Invoke(a []interface{}) ([]reflect.Value, error) { return fastBody(3, a) }
func (fs4) Invoke(a []interface{}) ([]reflect.Value, error) { return fastBody(4, a) }
func (fs5) Invoke(a []interface{}) ([]reflect.Value, error) { return fastBody(5, a) }
func (fs6) Invoke(a []interface{}) ([]reflect.Value, error) { return fastBody(6, a) }
func (fs7) Invoke(a []interface{}) ([]reflect.Value, error) { return fastBody(7, a) }
func (fs8) Invoke(a []interface{}) ([]reflect.Value, error) { return fastBody(8, a) }
func (fs9) Invoke(a []interface{}) ([]reflect.Value, error) { return fastBody(9, a) }
func (fs10) Invoke(a []interface{}) ([]reflect.Value, error) { return fastBody(10, a) }
func (fs11) Invoke(a []interface{}) ([]reflect.Value, error) { return fastBody(11, a) }

var fastFns = []interface{}{fs0(nil), fs1(nil), fs2(nil), fs3(nil), fs4(nil), fs5(nil), fs6(nil), fs7(nil), fs8(nil), fs9(nil), fs10(nil), fs11(nil)}

type A1 struct {
	F1 T1 `inject:"t"`
	F2 I2 `inject:""`
	F3 T2
	f4 N1  `inject:"x"` //nolint
	F5 *T1 `inject:""`
}

// A3 has the tagged fields of A1; every Apply on a pointer to it is preceded by an Apply on the struct BY VALUE (which
// can set nothing and reports nothing): what one call was handed says nothing about what the next one may set
type A3 struct {
	F1 T1  `inject:"t"`
	F2 I2  `inject:""`
	F5 *T1 `inject:""`
}

type A2 struct {
	G1 I3         `inject:""`
	G2 <-chan int `inject:""`
	G3 chan int   `inject:""`
}

func applyOp(tm inject.TypeMapper, o injOp) {
	v := mkVal(o.Ct, o.ID)
	switch o.Op {
	case "Map":
		tm.Map(v)
	case "MapTo":
		switch o.K {
		case "I1":
			tm.MapTo(v, (*I1)(nil))
		case "I2":
			tm.MapTo(v, (*I2)(nil))
		case "I3":
			tm.MapTo(v, (*I3)(nil))
		case "E0":
			tm.MapTo(v, (*E0)(nil))
		}
	case "Set":
		tm.Set(injTypes[o.K], reflect.ValueOf(v))
	}
}

// errType finds the type the error names: the menu type whose Go spelling occurs in the message (the longest one, so
// that "*main.T1" is not taken for "main.T1"), whatever the wording around it. Descriptions of the handler itself
// ("func(main.N1, chan int) (int, string)", as the chain puts them into its panic message) are cut out first.
var reFuncDesc = regexp.MustCompile(`func\([^()]*\)(?: \([^()]*\))?`)

func errType(err error) string {
	s := reFuncDesc.ReplaceAllString(err.Error(), "func")
	best, bestLen := "?", 0
	for k, t := range injTypes {
		if n := len(t.String()); n > bestLen && strings.Contains(s, t.String()) {
			best, bestLen = k, n
		}
	}
	return best
}

func retsToStrings(vs []reflect.Value) []string {
	out := []string{}
	for _, v := range vs {
		out = append(out, fmt.Sprint(v.Interface()))
	}
	return out
}

func emitInvoke(tr *traceWriter, s, k int, fast bool, rec *injRec, vals []reflect.Value, err error) {
	e := map[string]interface{}{"ev": "invoke", "s": s, "sig": injSigs[k], "fast": fast, "err": err != nil, "errtype": "",
		"calls": rec.calls, "args": []injVal{}, "rets": retsToStrings(vals), "bodyrets": []string{}}
	if err != nil {
		e["errtype"] = errType(err)
	}
	if rec.calls > 0 {
		e["args"] = rec.args
		if rec.args == nil {
			e["args"] = []injVal{}
		}
		e["bodyrets"] = sigRets(k)
	}
	tr.emit(e)
}

func injReplay(raw json.RawMessage, idx int, tr *traceWriter) {
	var c injCase
	if err := json.Unmarshal(raw, &c); err != nil {
		panic(err)
	}
	vias := []string{"inject"}
	if c.Parent[2] == 1 {
		vias = append(vias, "flame")
	}
	if c.Via != "" {
		vias = []string{c.Via}
	}
	if c.Probe == "" {
		c.Probe = []string{"ctx", "-", "ret", "-", "svc", "-", "-", "-"}[idx%8]
	}
	for _, via := range vias {
		c2 := c
		c2.Via = via
		tr.emit(map[string]interface{}{"case": idx, "ev": "reset", "input": c2, "nt": len(c.Hist) > 1, "parent": c.Parent})
		if via == "inject" {
			injRunPlain(&c, tr)
		} else {
			injRunFlame(&c, tr)
			if c.Probe == "ctx" {
				injCtxProbe(tr)
			}
			if c.Probe == "svc" {
				injSvcProbe(tr)
				injLogProbe(tr)
			}
			if c.Probe == "ret" {
				injRetProbe(tr)
			}
		}
	}
}

func injRunPlain(c *injCase, tr *traceWriter) {
	inj := []inject.Injector{nil, inject.New(), inject.New(), inject.New()}
	for s := 1; s <= 3; s++ {
		if p := c.Parent[s-1]; p > 0 {
			inj[s].SetParent(inj[p])
		}
	}
	for _, o := range c.Hist {
		if o.Op == "Lookup" {
			// a lookup between registrations: invoke every signature that asks for that type
			for k, sig := range injSigs {
				for _, t := range sig {
					if t == o.K {
						rec := &injRec{}
						vals, err := inj[o.S].Invoke(plainFn(k, rec))
						emitInvoke(tr, o.S, k, false, rec, vals, err)
						break
					}
				}
			}
			continue
		}
		applyOp(inj[o.S], o)
		tr.emit(map[string]interface{}{"ev": "reg", "op": o.Op, "s": o.S, "k": o.K, "ct": o.Ct, "id": o.ID})
	}
	for s := 1; s <= 3; s++ {
		for k := range injSigs {
			rec := &injRec{}
			vals, err := inj[s].Invoke(plainFn(k, rec))
			emitInvoke(tr, s, k, false, rec, vals, err)
			rec2 := &injRec{}
			fastRec = rec2
			vals, err = inj[s].Invoke(fastFns[k])
			emitInvoke(tr, s, k, true, rec2, vals, err)
		}
		a1 := A1{F3: T2{99}, f4: N1("keep")}
		if s%2 == 1 {
			// a struct that is not fresh: tagged fields already hold something (an earlier Apply, a caller's default); Apply
			// sets every tagged field from the injector all the same, and reports a type it cannot resolve
			a1.F1, a1.F2, a1.F5 = T1{777}, T2{778}, &T1{779}
		}
		err := inj[s].Apply(&a1)
		e := map[string]interface{}{"ev": "apply", "s": s, "fields": []string{"T1", "I2", "PT1"}, "err": err != nil, "errtype": "",
			"got": []injVal{idValOrNone(a1.F1, a1.F1 != T1{}), idVal(a1.F2), idVal(a1.F5)}, "untouched": a1.F3 == T2{99} && a1.f4 == "keep"}
		if err != nil {
			e["errtype"] = errType(err)
		}
		tr.emit(e)
		a3 := A3{}
		_ = inj[s].Apply(a3)
		err = inj[s].Apply(&a3)
		e = map[string]interface{}{"ev": "apply", "s": s, "fields": []string{"T1", "I2", "PT1"}, "err": err != nil, "errtype": "",
			"got": []injVal{idValOrNone(a3.F1, a3.F1 != T1{}), idVal(a3.F2), idVal(a3.F5)}, "untouched": true}
		if err != nil {
			e["errtype"] = errType(err)
		}
		tr.emit(e)
		a2 := A2{}
		if s%2 == 0 {
			a2.G1, a2.G3 = &T1{780}, make(chan int, 781)
		}
		err = inj[s].Apply(&a2)
		e = map[string]interface{}{"ev": "apply", "s": s, "fields": []string{"I3", "RCH", "CH"}, "err": err != nil, "errtype": "",
			"got": []injVal{idVal(a2.G1), idVal(a2.G2), idVal(a2.G3)}, "untouched": true}
		if err != nil {
			e["errtype"] = errType(err)
		}
		tr.emit(e)
	}
}

func idValOrNone(x interface{}, set bool) injVal {
	if !set {
		return injVal{"none", 0}
	}
	return idVal(x)
}

// injRunFlame realises scope 1 as the Flame instance and scopes 2 and 3 as two
// separate requests: an earlier handler of the request maps the scope's values,
// a later handler of the same request has the signature under test.
func injRunFlame(c *injCase, tr *traceWriter) {
	f := flamego.NewWithLogger(io.Discard)
	for _, o := range c.Hist {
		if o.S == 1 && o.Op != "Lookup" {
			applyOp(f, o)
			tr.emit(map[string]interface{}{"ev": "reg", "op": o.Op, "s": 1, "k": o.K, "ct": o.Ct, "id": o.ID})
		}
	}
	cur := 0
	mapper := func(ctx flamego.Context) {
		for _, o := range c.Hist {
			if o.S == cur && o.Op != "Lookup" {
				applyOp(ctx, o)
				tr.emit(map[string]interface{}{"ev": "reg", "op": o.Op, "s": cur, "k": o.K, "ct": o.Ct, "id": o.ID})
			}
		}
	}
	recs := make([]*injRec, injSigsFlame)
	frecs := make([]*injRec, injSigsFlame)
	for k := range injSigs[:injSigsFlame] {
		recs[k], frecs[k] = &injRec{}, &injRec{}
		f.Get(fmt.Sprintf("/p%d", k), mapper, plainFn(k, recs[k]))
		f.Get(fmt.Sprintf("/f%d", k), mapper, fastFns[k])
	}
	for s := 2; s <= 3; s++ {
		cur = s
		for k := range injSigs[:injSigsFlame] {
			for _, fast := range []bool{false, true} {
				rec := recs[k]
				path := fmt.Sprintf("/p%d", k)
				if fast {
					rec = frecs[k]
					fastRec = rec
					path = fmt.Sprintf("/f%d", k)
				}
				*rec = injRec{}
				w := httptest.NewRecorder()
				req, _ := http.NewRequest("GET", path, nil)
				var perr error
				func() {
					defer func() {
						if r := recover(); r != nil {
							perr = fmt.Errorf("%v", r)
						}
					}()
					f.ServeHTTP(w, req)
				}()
				var vals []reflect.Value
				if perr == nil && k%2 == 1 {
					// the framework rendered the results: (status, body)
					vals = []reflect.Value{reflect.ValueOf(w.Code), reflect.ValueOf(w.Body.String())}
				}
				emitInvoke(tr, s, k, fast, rec, vals, perr)
				tr.emit(map[string]interface{}{"ev": "endreq", "s": s})
			}
		}
	}
}

type ctxDeco struct {
	flamego.Context
	id int
}

// injCtxProbe: the request context maps itself as flamego.Context; an earlier handler re-maps the type to a
// decorated context; later handlers asking for flamego.Context - through the built-in func(Context) fast path and
// through the reflective path - must receive the re-registered value (a later registration replaces the earlier).
func injCtxProbe(tr *traceWriter) {
	f := flamego.NewWithLogger(io.Discard)
	got := 0
	see := func(c flamego.Context) int {
		if d, ok := c.(*ctxDeco); ok {
			return d.id
		}
		return 1
	}
	remap := func(c flamego.Context) {
		tr.emit(map[string]interface{}{"ev": "reg", "op": "MapTo", "s": 2, "k": "CTX", "ct": "CTX", "id": 1})
		c.MapTo(&ctxDeco{Context: c, id: 7}, (*flamego.Context)(nil))
		tr.emit(map[string]interface{}{"ev": "reg", "op": "MapTo", "s": 2, "k": "CTX", "ct": "CTX", "id": 7})
	}
	f.Get("/fast", remap, func(c flamego.Context) { got = see(c) })
	f.Get("/refl", remap, func(c flamego.Context, _ *http.Request) { got = see(c) })
	for _, p := range []string{"/fast", "/refl"} {
		got = 0
		req, _ := http.NewRequest("GET", p, nil)
		f.ServeHTTP(httptest.NewRecorder(), req)
		calls := 0
		args := []injVal{}
		if got != 0 {
			calls = 1
			args = []injVal{{"CTX", got}}
		}
		tr.emit(map[string]interface{}{"ev": "invoke", "s": 2, "sig": []string{"CTX"}, "fast": p == "/fast", "err": false, "errtype": "",
			"calls": calls, "args": args, "rets": []string{}, "bodyrets": []string{}})
		tr.emit(map[string]interface{}{"ev": "endreq", "s": 2})
	}
}

// injRetProbe: the results of a handler come back unchanged, whichever way the framework invokes it. Handlers of the
// forms a framework is likely to special-case (with the Context / the net/http pair / nothing as arguments, one or two
// results) are registered as they are - so that any automatic fast-path wrapping applies - and the ReturnHandler
// service records what it is handed: every result must be a valid value of the DECLARED result type, as a reflective
// call produces it (a nil error is a value of type error, not an invalid one; an error is not narrowed to its concrete type).
func injRetProbe(tr *traceWriter) {
	e := errors.New("boom")
	forms := []struct {
		name string
		fn   interface{}
	}{
		{"ctx_err_nil", func(flamego.Context) error { return nil }},
		{"ctx_err", func(flamego.Context) error { return e }},
		{"ctx_string", func(flamego.Context) string { return "s" }},
		{"ctx_bytes", func(flamego.Context) []byte { return []byte("b") }},
		{"ctx_int_string", func(flamego.Context) (int, string) { return 201, "s" }},
		{"ctx_int_err", func(flamego.Context) (int, error) { return 500, e }},
		{"ctx_int_err_nil", func(flamego.Context) (int, error) { return 204, nil }},
		{"ctx_string_err_nil", func(flamego.Context) (string, error) { return "s", nil }},
		{"ctx_any_nil", func(flamego.Context) interface{} { return nil }},
		{"ctx_any_string", func(flamego.Context) interface{} { return "s" }},
		{"ctx_ptr_nil", func(flamego.Context) *string { return nil }},
		{"none_err_nil", func() error { return nil }},
		{"none_err", func() error { return e }},
		{"none_string", func() string { return "s" }},
		{"none_int_string", func() (int, string) { return 201, "s" }},
		{"rw_req_err_nil", func(http.ResponseWriter, *http.Request) error { return nil }},
		{"rw_req_string", func(http.ResponseWriter, *http.Request) string { return "s" }},
		{"req_err", func(*http.Request) error { return e }},
	}
	for _, fm := range forms {
		f := flamego.NewWithLogger(io.Discard)
		got := []string{}
		calls := 0
		f.Map(flamego.ReturnHandler(func(c flamego.Context, vals []reflect.Value) {
			calls++
			for _, v := range vals {
				if !v.IsValid() {
					got = append(got, "<invalid>")
				} else {
					got = append(got, v.Type().String())
				}
			}
		}))
		f.Get("/", fm.fn)
		req, _ := http.NewRequest("GET", "/", nil)
		panicked := false
		func() {
			defer func() {
				if r := recover(); r != nil {
					panicked = true
				}
			}()
			f.ServeHTTP(httptest.NewRecorder(), req)
		}()
		declared := []string{}
		t := reflect.TypeOf(fm.fn)
		for i := 0; i < t.NumOut(); i++ {
			declared = append(declared, t.Out(i).String())
		}
		tr.emit(map[string]interface{}{"ev": "retshape", "form": fm.name, "declared": declared, "got": got, "calls": calls, "panicked": panicked})
	}
}

type rwDeco struct {
	http.ResponseWriter
	id int
}

// injSvcProbe: the same for the other two services of a request scope. An earlier handler re-maps http.ResponseWriter
// (a wrapping writer, as a compressing middleware does) and *http.Request (a derived request); later handlers in the
// plain net/http forms - func(http.ResponseWriter, *http.Request) and http.HandlerFunc, both built-in fast paths - and
// in a reflective form must receive the re-registered values.
func injSvcProbe(tr *traceWriter) {
	f := flamego.NewWithLogger(io.Discard)
	gotW, gotR := 0, 0
	see := func(w http.ResponseWriter, r *http.Request) {
		gotW, gotR = 1, 1
		if d, ok := w.(*rwDeco); ok {
			gotW = d.id
		}
		if r.Header.Get("X-Deco") == "7" {
			gotR = 7
		}
	}
	remap := func(c flamego.Context) {
		tr.emit(map[string]interface{}{"ev": "reg", "op": "MapTo", "s": 2, "k": "RWI", "ct": "RWI", "id": 1})
		tr.emit(map[string]interface{}{"ev": "reg", "op": "Map", "s": 2, "k": "REQ", "ct": "REQ", "id": 1})
		c.MapTo(&rwDeco{ResponseWriter: c.ResponseWriter(), id: 7}, (*http.ResponseWriter)(nil))
		r2 := c.Request().Request.Clone(c.Request().Context())
		r2.Header.Set("X-Deco", "7")
		c.Map(r2)
		tr.emit(map[string]interface{}{"ev": "reg", "op": "MapTo", "s": 2, "k": "RWI", "ct": "RWI", "id": 7})
		tr.emit(map[string]interface{}{"ev": "reg", "op": "Map", "s": 2, "k": "REQ", "ct": "REQ", "id": 7})
	}
	f.Get("/func", remap, func(w http.ResponseWriter, r *http.Request) { see(w, r) })
	f.Get("/named", remap, http.HandlerFunc(func(w http.ResponseWriter, r *http.Request) { see(w, r) }))
	f.Get("/refl", remap, func(w http.ResponseWriter, r *http.Request, _ flamego.Context) { see(w, r) })
	for _, p := range []string{"/func", "/named", "/refl"} {
		gotW, gotR = 0, 0
		req, _ := http.NewRequest("GET", p, nil)
		f.ServeHTTP(httptest.NewRecorder(), req)
		calls := 0
		args := []injVal{}
		if gotW != 0 {
			calls = 1
			args = []injVal{{"RWI", gotW}, {"REQ", gotR}}
		}
		tr.emit(map[string]interface{}{"ev": "invoke", "s": 2, "sig": []string{"RWI", "REQ"}, "fast": p != "/refl", "err": false, "errtype": "",
			"calls": calls, "args": args, "rets": []string{}, "bodyrets": []string{}})
		tr.emit(map[string]interface{}{"ev": "endreq", "s": 2})
	}
}

// injLogProbe: the logger is a service of the APPLICATION scope (the framework registers its default there). An
// application that registers its own *log.Logger afterwards has replaced it: handlers of later requests asking for a
// *log.Logger - reflectively or through the built-in LoggerInvoker form - receive the one registered last.
func injLogProbe(tr *traceWriter) {
	f := flamego.NewWithLogger(io.Discard)
	tr.emit(map[string]interface{}{"ev": "reg", "op": "Map", "s": 1, "k": "LOG", "ct": "LOG", "id": 1})
	custom := log.New(io.Discard)
	f.Map(custom)
	tr.emit(map[string]interface{}{"ev": "reg", "op": "Map", "s": 1, "k": "LOG", "ct": "LOG", "id": 7})
	got := 0
	see := func(l *log.Logger) {
		got = 1
		if l == custom {
			got = 7
		}
	}
	f.Get("/refl", func(l *log.Logger, _ *http.Request) { see(l) })
	f.Get("/fast", flamego.LoggerInvoker(func(_ flamego.Context, l *log.Logger) { see(l) }))
	for _, p := range []string{"/refl", "/fast"} {
		got = 0
		req, _ := http.NewRequest("GET", p, nil)
		f.ServeHTTP(httptest.NewRecorder(), req)
		calls := 0
		args := []injVal{}
		if got != 0 {
			calls = 1
			args = []injVal{{"LOG", got}}
		}
		tr.emit(map[string]interface{}{"ev": "invoke", "s": 2, "sig": []string{"LOG"}, "fast": p == "/fast", "err": false, "errtype": "",
			"calls": calls, "args": args, "rets": []string{}, "bodyrets": []string{}})
		tr.emit(map[string]interface{}{"ev": "endreq", "s": 2})
	}
}

func injGen(seed int64, n int, args []string, out *json.Encoder) {
	rng := rand.New(rand.NewSource(seed))
	conc := []string{"T1", "PT1", "T2", "N1", "CH"}
	impl := map[string][]string{"I1": {"T1", "PT1"}, "I2": {"T1", "PT1", "T2", "N1"}, "I3": {"T1", "PT1"}, "E0": conc}
	for i := 0; i < n; i++ {
		c := injCase{Parent: []int{0, 1, 1 + rng.Intn(2)}}
		k := 1 + rng.Intn(14)
		for j := 0; j < k; j++ {
			s := 1 + rng.Intn(3)
			id := 1 + rng.Intn(9)
			switch r := rng.Intn(13); {
			case r >= 10:
				c.Hist = append(c.Hist, injOp{"Lookup", s, []string{"T1", "PT1", "I1", "I2", "I3", "RCH", "N1", "E0"}[rng.Intn(8)], "", 0})
			case r < 5:
				ct := conc[rng.Intn(len(conc))]
				c.Hist = append(c.Hist, injOp{"Map", s, ct, ct, id})
			case r < 9:
				ifc := []string{"I1", "I2", "I3", "E0"}[rng.Intn(4)]
				ct := impl[ifc][rng.Intn(len(impl[ifc]))]
				c.Hist = append(c.Hist, injOp{"MapTo", s, ifc, ct, id})
			default:
				c.Hist = append(c.Hist, injOp{"Set", s, "RCH", "CH", id})
			}
		}
		_ = out.Encode(c)
	}
}

func init() { modules["inject"] = &module{gen: injGen, replay: injReplay} }
