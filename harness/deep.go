package main

// A panic raised at the bottom of a deep recursion whose frames are attributed to a source file that does not
// exist (as in a binary deployed without its sources, or generated code carrying //line directives): whoever
// formats the stack must cope with frames it cannot read and with more frames than it cares to list.

//line /nonexistent/verif_deep.go:1
func deepPanic(n int, v interface{}) {
	if n == 0 {
		panic(v)
	}
	deepPanic(n-1, v)
	_ = n // keeps the call out of tail position
}
