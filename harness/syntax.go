package main

// C06: the route parser. Cases are class strings (emitted by TLC, concretised
// with seeded members of each class) or raw byte strings (random generator).

import (
	"encoding/json"
	"fmt"
	"math/rand"
	"net/http"
	"os"
	"regexp"
	"strings"
	"sync"

	"github.com/flamego/flamego/internal/route"
)

type synCase struct {
	Cs  []string `json:"cs,omitempty"`
	Acc bool     `json:"acc,omitempty"`
	Raw string   `json:"raw,omitempty"` // encBytes-encoded
	Has bool     `json:"has,omitempty"` // Raw is set (may be the empty string)
}

var classMembers = map[string]string{
	"/": "/", "?": "?", "{": "{", "}": "}", ":": ":", ",": ",", " ": " ",
	"i": "azAZ09-._()*+mQ5", "o": "~@!&';%=", "$": "$", "r": "[]\\|", "w": "\t\n\r\f",
	"x": "\"#<>^`\v\x00\x7f\x80\xff\xc3",
}

// characters outside ASCII that some regexp flag or Unicode table relates to an ASCII letter or digit
// (case folding: U+017F, U+212A; digits and letters of other scripts); each of their bytes is class "x"
var xRunes = []string{"\u017f", "\u212a", "\u0130", "\u00e9", "\u0661", "\uff21", "\u00a0", "\u2028"}

func classOf(b byte) string {
	for c, ms := range classMembers {
		if strings.IndexByte(ms, b) >= 0 && c != "i" && c != "x" {
			return c
		}
	}
	switch {
	case 'a' <= b && b <= 'z', 'A' <= b && b <= 'Z', '0' <= b && b <= '9':
		return "i"
	case strings.IndexByte("-._()*+", b) >= 0:
		return "i"
	}
	return "x"
}

// documented character sets, read from the README of the repository under test
var docChar, docAny [256]bool
var docLoaded bool

func loadDoc() {
	if docLoaded {
		return
	}
	docLoaded = true
	path := os.Getenv("VERIF_REPO")
	if path == "" {
		path = "/repo"
	}
	b, err := os.ReadFile(path + "/internal/route/README.md")
	if err != nil {
		panic(err)
	}
	term := regexp.MustCompile(`"((?:\\.|[^"\\])+)"|\[(.)-(.)\]`)
	parse := func(rule string, set *[256]bool) {
		for _, line := range strings.Split(string(b), "\n") {
			if strings.HasPrefix(strings.TrimSpace(line), rule+" ::=") {
				rhs := line[strings.Index(line, "::=")+3:]
				for _, m := range term.FindAllStringSubmatch(rhs, -1) {
					if m[1] != "" {
						t := strings.ReplaceAll(m[1], `\\`, `\`)
						if len(t) == 1 {
							set[t[0]] = true
						}
					} else {
						for c := m[2][0]; c <= m[3][0]; c++ {
							set[c] = true
						}
					}
				}
				return
			}
		}
		panic("README rule not found: " + rule)
	}
	parse("<char>", &docChar)
	parse("<any>", &docAny)
	for _, line := range strings.Split(string(b), "\n") {
		if strings.HasPrefix(strings.TrimSpace(line), "<any> ::=") && strings.Contains(line, "<char>") {
			for i := range docAny {
				if docChar[i] {
					docAny[i] = true
				}
			}
		}
	}
}

func astToks(r *route.Route) []string {
	out := []string{}
	for _, s := range r.Segments {
		out = append(out, "seg")
		if s.Optional {
			out = append(out, "opt")
		}
		for _, e := range s.Elements {
			switch {
			case e.Ident != nil:
				out = append(out, "lit:"+encBytes(*e.Ident))
			case e.BindIdent != nil:
				out = append(out, "bind:"+encBytes(*e.BindIdent))
			case e.BindParameters != nil:
				out = append(out, "open")
				for _, p := range e.BindParameters.Parameters {
					out = append(out, "p:"+encBytes(p.Ident))
					if p.Value.Literal != nil {
						out = append(out, "val:"+encBytes(*p.Value.Literal))
					} else if p.Value.Regex != nil {
						out = append(out, "re:"+encBytes(*p.Value.Regex))
					} else {
						out = append(out, "?novalue")
					}
				}
				out = append(out, "close")
			default:
				out = append(out, "?empty")
			}
		}
	}
	return out
}

func chars(s string) []string {
	out := make([]string, len(s))
	for i := 0; i < len(s); i++ {
		out[i] = encBytes(s[i : i+1])
	}
	return out
}

var synParser *route.Parser

func synOne(text string, tr *traceWriter) {
	loadDoc()
	if synParser == nil {
		p, err := route.NewParser()
		if err != nil {
			panic(err)
		}
		synParser = p
	}
	cs := make([]string, len(text))
	di := make([]bool, len(text))
	da := make([]bool, len(text))
	for i := 0; i < len(text); i++ {
		cs[i] = classOf(text[i])
		di[i] = docChar[text[i]]
		da[i] = docAny[text[i]]
	}
	e := map[string]interface{}{"ev": "parse", "cs": cs, "ch": chars(text), "di": di, "da": da, "ok": false, "panicked": false,
		"canon": []string{}, "toks": []string{}, "reparse_ok": false, "canon2": []string{}, "toks2": []string{}}
	func() {
		defer func() {
			if r := recover(); r != nil {
				e["panicked"] = true
			}
		}()
		r, err := synParser.Parse(text)
		// the same parser asked the same string once more gives the same verdict
		if r2, err2 := synParser.Parse(text); (err2 == nil && r2 != nil) != (err == nil && r != nil) {
			e["ok"] = !(err == nil && r != nil)
			e["reparse_ok"] = false
			return
		}
		if err != nil || r == nil {
			return
		}
		e["ok"] = true
		canon := r.String()
		e["canon"] = chars(canon)
		e["toks"] = astToks(r)
		r2, err2 := synParser.Parse(canon)
		if err2 == nil && r2 != nil {
			e["reparse_ok"] = true
			e["canon2"] = chars(r2.String())
			e["toks2"] = astToks(r2)
		}
		// a third copy is handed to a route tree BEFORE it is rendered for the first time (what an application does):
		// using a parsed route does not change what it renders to, nor its structure
		if r3, err3 := synParser.Parse(text); err3 == nil && r3 != nil {
			func() {
				defer func() { _ = recover() }()
				_, _ = route.AddRoute(route.NewTree(), r3, func(http.ResponseWriter, *http.Request, route.Params) {})
			}()
			if after := r3.String(); after != canon || strings.Join(astToks(r3), "\x00") != strings.Join(astToks(r), "\x00") {
				e["canon2"] = chars("<changed by AddRoute> " + after)
			}
		}
	}()
	tr.emit(e)
}

func synReplay(raw json.RawMessage, idx int, tr *traceWriter) {
	var c synCase
	if err := json.Unmarshal(raw, &c); err != nil {
		panic(err)
	}
	if c.Has || c.Raw != "" {
		tr.emit(map[string]interface{}{"case": idx, "ev": "reset", "input": raw, "nt": len(c.Raw) > 1})
		synOne(decBytes(c.Raw), tr)
		return
	}
	if idx%200 == 0 {
		synConcurrentRender(idx, tr)
	}
	rng := rand.New(rand.NewSource(int64(idx)*31337 + int64(envInt("VERIF_SEED", 1))))
	variants := envInt("VERIF_VARIANTS", 2)
	for v := 0; v < variants; v++ {
		var b strings.Builder
		for _, cl := range c.Cs {
			ms := classMembers[cl]
			if cl == "x" && rng.Intn(3) == 0 {
				b.WriteString(xRunes[rng.Intn(len(xRunes))])
				continue
			}
			b.WriteByte(ms[rng.Intn(len(ms))])
		}
		// the concrete string is the replayable input
		tr.emit(map[string]interface{}{"case": idx, "ev": "reset", "input": synCase{Raw: encBytes(b.String()), Has: true}, "nt": len(c.Cs) > 1})
		synOne(b.String(), tr)
	}
}

// synConcurrentRender: the canonical rendering of a parsed route is a function of that route alone - also when several
// freshly parsed routes are rendered for the first time at the same moment (the first requests after start-up do that).
// 24 distinct routes are parsed twice; one copy of each is rendered alone, the other copies are rendered by 24
// goroutines released together.
func synConcurrentRender(idx int, tr *traceWriter) {
	p, err := route.NewParser()
	if err != nil {
		panic(err)
	}
	const n = 24
	want := make([]string, n)
	got := make([]string, n)
	routes := make([]*route.Route, n)
	for i := 0; i < n; i++ {
		text := fmt.Sprintf("/api-%d-%d/v%d/{owner-%d}/x{id%d: /[a-z0-9]{1,%d}/, kind: lit%d}.{ext}/?{tail%d: **, capture: %d}", idx, i, i, i, i, 10+i, i, i, 1+i%5)
		a, err1 := p.Parse(text)
		b, err2 := p.Parse(text)
		if err1 != nil || err2 != nil {
			panic(fmt.Sprint("harness route does not parse: ", err1, err2))
		}
		want[i] = a.String()
		routes[i] = b
	}
	var wg sync.WaitGroup
	start := make(chan struct{})
	for i := 0; i < n; i++ {
		wg.Add(1)
		go func(i int) {
			defer wg.Done()
			<-start
			got[i] = routes[i].String()
		}(i)
	}
	close(start)
	wg.Wait()
	bad := 0
	for i := range want {
		if got[i] != want[i] {
			bad++
		}
	}
	tr.emit(map[string]interface{}{"case": idx, "ev": "reset", "input": map[string]interface{}{"cs": []string{}}, "nt": true})
	tr.emit(map[string]interface{}{"ev": "renderconc", "routes": n, "differing": bad})
}

// random derivation of the grammar
func genIdent(r *rand.Rand) string {
	pool := "abcxyzAZ019-._~@!$&'()*+;%="
	n := 1 + r.Intn(4)
	var b strings.Builder
	for i := 0; i < n; i++ {
		b.WriteByte(pool[r.Intn(len(pool))])
	}
	return b.String()
}

func genRegexText(r *rand.Rand) string {
	pool := "ab09AZ*-+._,?()[]{} \\|"
	n := 1 + r.Intn(6)
	var b strings.Builder
	for i := 0; i < n; i++ {
		b.WriteByte(pool[r.Intn(len(pool))])
	}
	return b.String()
}

func genDerivation(r *rand.Rand) string {
	var b strings.Builder
	nseg := 1 + r.Intn(5)
	for s := 0; s < nseg; s++ {
		b.WriteString("/")
		if r.Intn(5) == 0 {
			b.WriteString("?")
		}
		ne := r.Intn(4)
		lastIdent := false
		for e := 0; e < ne; e++ {
			switch k := r.Intn(3); {
			case k == 0 && !lastIdent:
				b.WriteString(genIdent(r))
				lastIdent = true
			case k == 1:
				b.WriteString("{" + genIdent(r) + "}")
				lastIdent = false
			default:
				b.WriteString("{")
				np := 1 + r.Intn(3)
				for p := 0; p < np; p++ {
					if p > 0 {
						b.WriteString("," + strings.Repeat(" ", r.Intn(3)))
					}
					b.WriteString(genIdent(r) + ":" + strings.Repeat(" ", r.Intn(3)))
					if r.Intn(2) == 0 {
						b.WriteString(genIdent(r))
					} else {
						b.WriteString("/" + genRegexText(r) + "/")
					}
				}
				b.WriteString("}")
				lastIdent = false
			}
		}
	}
	return b.String()
}

func synGen(seed int64, n int, args []string, out *json.Encoder) {
	rng := rand.New(rand.NewSource(seed))
	for i := 0; i < n; i++ {
		var s string
		switch rng.Intn(4) {
		case 0: // arbitrary bytes
			k := rng.Intn(12)
			b := make([]byte, k)
			for j := range b {
				b[j] = byte(rng.Intn(256))
			}
			s = string(b)
		case 1: // bytes from the syntax alphabet
			pool := "//??{{}}::,,  ab1-.$~[\\|\t\""
			k := rng.Intn(14)
			b := make([]byte, k)
			for j := range b {
				b[j] = pool[rng.Intn(len(pool))]
			}
			s = string(b)
		case 2:
			s = genDerivation(rng)
		default: // one mutation of a derivation
			s = genDerivation(rng)
			if len(s) > 0 {
				j := rng.Intn(len(s))
				pool := "/?{}:, a$~[\t\"\xff"
				ins := string(pool[rng.Intn(len(pool))])
				if rng.Intn(6) == 0 {
					ins = xRunes[rng.Intn(len(xRunes))]
				}
				switch rng.Intn(3) {
				case 0:
					s = s[:j] + s[j+1:]
				case 1:
					s = s[:j] + ins + s[j:]
				default:
					s = s[:j] + ins + s[j+1:]
				}
			}
		}
		_ = out.Encode(synCase{Raw: encBytes(s), Has: true})
	}
}

func init() { modules["syntax"] = &module{gen: synGen, replay: synReplay} }
