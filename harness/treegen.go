package main

import "encoding/json"

func treeGen(seed int64, n int, args []string, out *json.Encoder) {}
