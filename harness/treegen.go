package main

// Seeded random generator of routing cases (direction B): route sets far
// beyond the model-checking bound (more routes, longer routes, several binds
// per segment, real expressions, regex-active literals, percent-escapes and
// arbitrary bytes in paths, header constraints, names and URL building).

import (
	"encoding/json"
	"fmt"
	"math/rand"
	"net/url"
	"strings"
)

type exprT struct {
	re      string
	yes, no []string
}

var exprTable = []exprT{
	{"[0-9]+", []string{"1", "42", "007"}, []string{"", "a", "4x"}},
	{"[a-z]+", []string{"a", "xyz", "q"}, []string{"", "A", "a1"}},
	{"a|b", []string{"a", "b"}, []string{"", "ab", "c"}},
	{"[ab]", []string{"a", "b"}, []string{"", "ab", "c"}},
	{"x?y", []string{"y", "xy"}, []string{"x", "xxy", ""}},
	{"[a-z0-9]{2,3}", []string{"ab", "a1c", "zz"}, []string{"a", "abcd", "A1"}},
	{"\\d+", []string{"5", "99"}, []string{"", "d", "5a"}},
	{"[\\w]+", []string{"ab_1", "Q"}, []string{"", "a-b", "."}},
	{"diff|patch", []string{"diff", "patch"}, []string{"dif", "patchx", ""}},
	{".*", []string{"", "a", "a.b-c", "%41"}, nil},
	{"[a-z]*", []string{"", "ab"}, []string{"A", "1"}},
	// expressions with their own capture groups (D3)
	{"(a|b)c", []string{"ac", "bc"}, []string{"c", "abc", ""}},
	{"(x|y)+", []string{"x", "xy", "yyx"}, []string{"", "z", "xz"}},
	{"v([0-9])", []string{"v1", "v9"}, []string{"v", "v12", "1"}},
	// ... that also use Perl-only syntax (classes, non-capturing groups, lazy quantifiers)
	{"(\\d+)", []string{"7", "42"}, []string{"", "x", "4x"}},
	{"(\\w)\\.(\\w)", []string{"a.x", "b.1"}, []string{"a", "a.", "a.xx"}},
	{"(a+?)b", []string{"ab", "aab"}, []string{"b", "a", "abb"}},
	{"(?i)k(\\s|-)z", []string{"k-z", "K z"}, []string{"kz", "k--z"}},
}

var staticPool = []string{"a%20b", "x%2Fy", "a", "b", "users", "api", "v1", "a.b", "a+b", "(a)", "a$", "a*", "x-y", "~u", "p%41", "A", "index.html", "a!", "q=1", "a;b", "'q'", "@me", "a_b", "0"}
var phPool = []string{"q", "a", "b", "", "x%41y", "%2F", "%zz", "a.b", "%2541", "50%25", "%252F", "a%20", "%25zz", "\xc3\xa9", "a b", "v1", "%", "%4", "users", "{x}", "?a", "a+b", "(a)", "..", "a%2Fb", "%C3%A9"}

type segGen struct {
	seg    aSeg
	sample func(r *rand.Rand) []string // one admitted instance: the path segments it consumes
}

type nameAlloc struct{ n int }

// next returns a fresh bind name. Any identifier of the route grammar is a legal name: besides letters and digits
// that is - . _ ~ @ ! $ & ' ( ) * + ; % = (the names "route" and "withOptional" collide with reserved words: D14).
func (a *nameAlloc) next() string {
	a.n++
	return fmt.Sprintf([]string{"p%d", "p%d", "p%d", "user-id%d", "file.ext%d", "x_%d", "a*%d", "~t%d", "$v%d", "k=%d", "(g%d)", "q+%d;", "rest%d...", "n%d.."}[(a.n*7+a.n/3)%14], a.n)
}

func pick(r *rand.Rand, s []string) string { return s[r.Intn(len(s))] }

func genStatic(r *rand.Rand) segGen {
	t := pick(r, staticPool)
	return segGen{aSeg{K: "S", T: t, Binds: []string{}, Els: []aEl{{Ty: "lit", V: t}}}, func(*rand.Rand) []string { return []string{t} }}
}

func genPlaceholder(r *rand.Rand, na *nameAlloc) segGen {
	n := na.next()
	return segGen{aSeg{K: "P", T: "{" + n + "}", Binds: []string{n}, Els: []aEl{{Ty: "bind", V: n, G: 1}}},
		func(r *rand.Rand) []string { return []string{pick(r, phPool)} }}
}

func genAll(r *rand.Rand, na *nameAlloc) segGen {
	n := na.next()
	capn := 0
	t := "{" + n + ": **}"
	switch r.Intn(4) {
	case 0:
		capn = 1 + r.Intn(3)
		t = fmt.Sprintf("{%s: **, capture: %d}", n, capn)
	case 1:
		if r.Intn(3) == 0 {
			n = "**"
			t = "{**}"
		}
	case 2:
		if r.Intn(3) == 0 {
			// a non-positive limit means "unlimited" (documented in the route package), at every position of a route
			t = fmt.Sprintf("{%s: **, capture: %d}", n, -r.Intn(3))
		}
	}
	return segGen{aSeg{K: "A", T: t, Binds: []string{n}, Cap: capn, Els: []aEl{{Ty: "bind", V: n, G: 1}}},
		func(r *rand.Rand) []string {
			k := 1 + r.Intn(3)
			if capn > 0 && k > capn && r.Intn(4) != 0 {
				k = capn
			}
			out := make([]string, k)
			for i := range out {
				out[i] = pick(r, phPool)
			}
			return out
		}}
}

var litPool = []string{"-", ".", "_", "v", "id", "a.b", "a+", "(", ")", "$", "~", "x"}

func genRegex(r *rand.Rand, na *nameAlloc, allowGrp bool) segGen {
	var els []aEl
	var binds []string
	var t strings.Builder
	type part struct {
		lit string
		ex  *exprT
	}
	var parts []part
	grp := false
	n := 1 + r.Intn(3)
	lastBind := false
	for i := 0; i < n; i++ {
		switch k := r.Intn(10); {
		case k < 3 && i > 0 || (lastBind && k < 6):
			l := pick(r, litPool)
			if len(els) > 0 && els[len(els)-1].Ty == "lit" {
				continue // the lexer would merge two adjacent literals into one token
			}
			els = append(els, aEl{Ty: "lit", V: l})
			t.WriteString(l)
			parts = append(parts, part{lit: l})
			lastBind = false
		case k < 5 && i > 0 && !lastBind:
			// bare {x} inside a multi-element segment: (.+)
			nm := na.next()
			els = append(els, aEl{Ty: "bind", V: nm, G: 1})
			binds = append(binds, nm)
			t.WriteString("{" + nm + "}")
			parts = append(parts, part{ex: &exprT{re: ".+", yes: []string{"q", "ab", "1.2"}}})
			lastBind = true
		default:
			// bind-parameter list with 1..2 parameters
			np := 1
			if r.Intn(5) == 0 {
				np = 2
			}
			t.WriteString("{")
			for j := 0; j < np; j++ {
				ex := &exprTable[r.Intn(len(exprTable))]
				for !allowGrp && strings.Contains(ex.re, "(") {
					ex = &exprTable[r.Intn(len(exprTable))]
				}
				if strings.Contains(ex.re, "(") {
					grp = true
				}
				nm := na.next()
				g := 1
				if j > 0 {
					g = 2
					t.WriteString(", ")
				}
				els = append(els, aEl{Ty: "bind", V: nm, G: g, Re: ex.re})
				binds = append(binds, nm)
				t.WriteString(nm + ": /" + ex.re + "/")
				parts = append(parts, part{ex: ex})
			}
			t.WriteString("}")
			lastBind = true
		}
	}
	if len(binds) == 0 || (len(els) == 1 && els[0].Re == "") {
		return genRegexSimple(r, na, allowGrp)
	}
	sg := aSeg{K: "R", T: t.String(), Binds: binds, Els: els, Grp: grp}
	return segGen{sg, func(r *rand.Rand) []string {
		var b strings.Builder
		for _, p := range parts {
			if p.ex == nil {
				b.WriteString(p.lit)
			} else {
				b.WriteString(pick(r, p.ex.yes))
			}
		}
		return []string{b.String()}
	}}
}

func genRegexSimple(r *rand.Rand, na *nameAlloc, allowGrp bool) segGen {
	ex := &exprTable[r.Intn(len(exprTable))]
	for !allowGrp && strings.Contains(ex.re, "(") {
		ex = &exprTable[r.Intn(len(exprTable))]
	}
	nm := na.next()
	sg := aSeg{K: "R", T: "{" + nm + ": /" + ex.re + "/}", Binds: []string{nm}, Els: []aEl{{Ty: "bind", V: nm, G: 1, Re: ex.re}},
		Grp: strings.Contains(ex.re, "(")}
	return segGen{sg, func(r *rand.Rand) []string { return []string{pick(r, ex.yes)} }}
}

type routeGen struct {
	r    aRoute
	segs []segGen
}

func genRoute(r *rand.Rand, maxSegs int, allowGrp bool, pool *[]segGen) routeGen {
	na := &nameAlloc{n: r.Intn(3) * 10}
	n := 1 + r.Intn(maxSegs)
	var rg routeGen
	hasAll := false
	for i := 0; i < n; i++ {
		var sg segGen
		// reuse an earlier segment often so that routes share subtrees and compete
		if len(*pool) > 0 && r.Intn(10) < 5 {
			sg = (*pool)[r.Intn(len(*pool))]
			if sg.seg.K == "A" && hasAll && i < n-1 {
				sg = genStatic(r)
			}
		} else {
			switch k := r.Intn(10); {
			case k < 4:
				sg = genStatic(r)
			case k < 6:
				sg = genPlaceholder(r, na)
			case k < 8:
				sg = genRegex(r, na, allowGrp)
			default:
				if hasAll && i < n-1 {
					sg = genPlaceholder(r, na)
				} else {
					sg = genAll(r, na)
				}
			}
			*pool = append(*pool, sg)
		}
		if sg.seg.K == "A" && i < n-1 {
			hasAll = true
		}
		rg.segs = append(rg.segs, sg)
	}
	// a trailing empty segment ("/a/") now and then
	if r.Intn(12) == 0 {
		rg.segs = append(rg.segs, segGen{aSeg{K: "S", T: "", Binds: []string{}, Els: []aEl{}}, func(*rand.Rand) []string { return []string{""} }})
	}
	if r.Intn(4) == 0 {
		last := rg.segs[len(rg.segs)-1]
		last.seg.Opt = true
		rg.segs[len(rg.segs)-1] = last
	}
	rg.r.Gram = true
	for _, s := range rg.segs {
		rg.r.Segs = append(rg.r.Segs, s.seg)
	}
	return rg
}

// genWideRoute: "/w/<final>" where the final segment is the j-th child of one wide node.
func genWideRoute(r *rand.Rand, j int) routeGen {
	na := &nameAlloc{n: 40 + j}
	parent := segGen{aSeg{K: "S", T: "w", Binds: []string{}, Els: []aEl{{Ty: "lit", V: "w"}}}, func(*rand.Rand) []string { return []string{"w"} }}
	var last segGen
	switch k := r.Intn(10); {
	case k < 6:
		t := fmt.Sprintf("s%d", j)
		last = segGen{aSeg{K: "S", T: t, Binds: []string{}, Els: []aEl{{Ty: "lit", V: t}}}, func(*rand.Rand) []string { return []string{t} }}
	case k < 9:
		last = genRegexSimple(r, na, false)
	default:
		last = genPlaceholder(r, na)
	}
	rg := routeGen{segs: []segGen{parent, last}}
	rg.r.Gram = true
	rg.r.Segs = []aSeg{parent.seg, last.seg}
	return rg
}

// instance returns an admitted request path of the route (long or short form) as segments.
func (rg routeGen) instance(r *rand.Rand) []string {
	segs := rg.segs
	if segs[len(segs)-1].seg.Opt && r.Intn(2) == 0 {
		segs = segs[:len(segs)-1]
	}
	var out []string
	for _, s := range segs {
		out = append(out, s.sample(r)...)
	}
	if len(out) == 0 {
		out = []string{""}
	}
	return out
}

func mutatePath(r *rand.Rand, p []string) []string {
	q := append([]string{}, p...)
	switch r.Intn(8) {
	case 0:
		if len(q) > 1 {
			i := r.Intn(len(q))
			q = append(q[:i], q[i+1:]...)
		}
	case 1:
		i := r.Intn(len(q) + 1)
		q = append(q[:i], append([]string{pick(r, phPool)}, q[i:]...)...)
	case 2:
		q = append(q, "")
	case 3:
		q[r.Intn(len(q))] = pick(r, phPool)
	case 4:
		q[r.Intn(len(q))] = pick(r, staticPool)
	case 5:
		i := r.Intn(len(q))
		q[i] = q[i] + pick(r, []string{"x", "%41", ".", "%zz", "/"})
	case 6:
		i := r.Intn(len(q) + 1)
		q = append(q[:i], append([]string{""}, q[i:]...)...)
	}
	return q
}

var hostilePaths = []string{"", "/", "//", "////", "%", "/%", "/%2", "/%zz", "/\x00", "/\xff\xfe", "/a/\x80", "/a//", "//a", "/?", "/a?b", "/{x}", "/a/../b", "/.", "/a/%2F/b", "/a%2Fb", "/ ", "/a b", "/\t", "/\n"}

func hostilePath(r *rand.Rand) string {
	switch r.Intn(6) {
	case 0:
		return pick(r, hostilePaths)
	case 1:
		n := r.Intn(40)
		b := make([]byte, n)
		for i := range b {
			b[i] = byte(r.Intn(256))
		}
		return "/" + string(b)
	case 2:
		return "/" + strings.Repeat("a", 1+r.Intn(70000))
	case 3:
		return strings.Repeat("/"+pick(r, phPool), 1+r.Intn(3000))
	case 4:
		n := 1 + r.Intn(6)
		var b strings.Builder
		for i := 0; i < n; i++ {
			b.WriteString("/")
			b.WriteString(pick(r, append(phPool, staticPool...)))
		}
		return b.String()
	default:
		return strings.Repeat("/", r.Intn(5)) + pick(r, staticPool) + strings.Repeat("/", r.Intn(4))
	}
}

var hdrExprs = []hdrC{{Name: "X-K", Expr: "v"}, {Name: "X-K", Expr: "^w$"}, {Name: "User-Agent", Expr: "Chrome"}, {Name: "X-Id", Expr: "[0-9]+"}, {Name: "Cache-Control", Expr: ""}, {Name: "X-K", Expr: "^(a|b)$"},
	{Name: "X-K", Expr: ""}, {Name: "X-Id", Expr: "^[0-9]*$"}, {Name: "Cache-Control", Expr: "^(no-cache)?$"}}
var hdrVals = map[string][]string{"X-K": {"", "v", "w", "vw", "a", "xvx", " w", "w\t", " ", "a "}, "User-Agent": {"", "Chrome/1", "Firefox"}, "X-Id": {"", "12", "ab", " 12 ", "\t"}, "Cache-Control": {"", "no-cache"}}

func randReqHdr(r *rand.Rand) map[string]string {
	h := map[string]string{}
	for k, vs := range hdrVals {
		if r.Intn(3) > 0 {
			h[k] = pick(r, vs)
		}
	}
	return h
}

var urlVals = []string{"", "v", "a/b", "{p1}", "{p2}", "{", "}", "%41", "x y", "\xff", "{p1}{p2}", "é"}

func makeIllFormed(r *rand.Rand, rg routeGen, pool *[]segGen) aRoute {
	rt := rg.r
	segs := append([]aSeg{}, rt.Segs...)
	switch r.Intn(8) {
	case 0: // non-final optional
		if len(segs) > 1 {
			segs[r.Intn(len(segs)-1)].Opt = true
		}
	case 1: // inner empty segment
		i := r.Intn(len(segs))
		segs = append(segs[:i], append([]aSeg{{K: "S", T: "", Binds: []string{}, Els: []aEl{}}}, segs[i:]...)...)
	case 2: // bind reused along the route
		segs = append([]aSeg{{K: "P", T: "{dup}", Binds: []string{"dup"}, Els: []aEl{{Ty: "bind", V: "dup", G: 1}}}}, segs...)
		segs = append(segs, aSeg{K: "P", T: "{dup}", Binds: []string{"dup"}, Els: []aEl{{Ty: "bind", V: "dup", G: 1}}})
		for i := range segs[:len(segs)-1] {
			segs[i].Opt = false
		}
	case 3: // bind reused inside one segment
		segs = append(segs[:len(segs):len(segs)], aSeg{K: "R", T: "{dd}.{dd}", Binds: []string{"dd", "dd"},
			Els: []aEl{{Ty: "bind", V: "dd", G: 1}, {Ty: "lit", V: "."}, {Ty: "bind", V: "dd", G: 1}}})
		for i := range segs[:len(segs)-1] {
			segs[i].Opt = false
		}
	case 4: // two match-alls before the end
		a1 := aSeg{K: "A", T: "{m1: **}", Binds: []string{"m1"}, Els: []aEl{{Ty: "bind", V: "m1", G: 1}}}
		a2 := aSeg{K: "A", T: "{m2: **}", Binds: []string{"m2"}, Els: []aEl{{Ty: "bind", V: "m2", G: 1}}}
		segs = append([]aSeg{a1, a2}, segs...)
	case 5: // expression that does not compile
		// ... on its own: "a)(b" only compiles once it is wrapped in the parentheses of the bind
		bad := pick(r, []string{"(", "a)(b", ")(", "a)|(b", "[a", "x{2,1}", "a)(b", "?i", "?s", "?U", "?i-s", "*a", "+"})
		segs = append(segs[:len(segs):len(segs)], aSeg{K: "R", T: "{bad: /" + bad + "/}", Binds: []string{"bad"}, Bad: true, Grp: true,
			Els: []aEl{{Ty: "bind", V: "bad", G: 1, Re: bad}}})
		if r.Intn(3) == 0 {
			segs = append(segs, aSeg{K: "S", T: "z", Binds: []string{}, Els: []aEl{{Ty: "lit", V: "z"}}}) // at a non-final position too
		}
		for i := range segs[:len(segs)-1] {
			segs[i].Opt = false
		}
	case 6: // outside the grammar
		return aRoute{Segs: segs, Gram: false, Raw: pick(r, []string{"a", "/a{", "/{x", "/a}", "/{x:}", "/a:b", "/[a]", "/{x: /a}", "/a,b", "/\"", "/a#", "", "/{x: /^a$/}",
			// blanks are only part of the grammar after ":" and "," and inside an expression
			"/hello world", "/{ name }", "/a/ ?b", "/a\tb", "/ a", "/{x : /a/}", "/{x: /a/ }", "/{x: /a/ , y: /b/}", "/a ", " /a", "/{x: ** , capture: 2}", "/a\n"})}
	default: // duplicate of itself is produced by the caller
	}
	rt.Segs = segs
	return rt
}

func treeGen(seed int64, n int, args []string, out *json.Encoder) {
	kind := "prio"
	if len(args) > 0 {
		kind = args[0]
	}
	rng := rand.New(rand.NewSource(seed))
	for i := 0; i < n; i++ {
		c := treeCase{Fam: "rand-" + kind, Hops: []hop{}}
		var pool []segGen
		nr := 2 + rng.Intn(11)
		if kind == "url" {
			nr = 1 + rng.Intn(3)
		}
		var rgs []routeGen
		methods := []string{"GET"}
		if kind == "hdr" || kind == "hostile" {
			methods = []string{"GET", "GET", "POST", "HEAD"}
		}
		allowGrp := rng.Intn(4) == 0
		// now and then a WIDE node: well over a dozen routes whose last segment hangs off the same parent (statics, several
		// overlapping expressions, placeholders) - the order among equals must survive however many siblings there are
		wide := (kind == "prio" || kind == "reg") && rng.Intn(8) == 0
		if wide {
			nr = 14 + rng.Intn(7)
		}
		call := 0
		for j := 0; j < nr; j++ {
			rg := genRoute(rng, 5, allowGrp, &pool)
			if wide {
				rg = genWideRoute(rng, j)
			}
			rt := rg.r
			if kind == "reg" && rng.Intn(10) < 3 {
				rt = makeIllFormed(rng, rg, &pool)
			}
			if kind == "reg" && rng.Intn(10) == 0 && len(c.H) > 0 {
				rt = c.H[rng.Intn(len(c.H))].R // duplicate
			}
			if kind == "reg" && rng.Intn(6) == 0 && len(rgs) > 0 {
				// a second, different match-all at the position of an existing final match-all, as the OPTIONAL last
				// segment: must be rejected, and its short form must not become reachable
				src := rgs[rng.Intn(len(rgs))]
				if n := len(src.segs); n >= 2 && src.segs[n-1].seg.K == "A" {
					na := &nameAlloc{n: 70 + rng.Intn(20)}
					alt := genAll(rng, na)
					alt.seg.Opt = true
					rg = routeGen{segs: append(append([]segGen{}, src.segs[:n-1]...), alt)}
					rg.r.Gram = true
					for _, sg := range rg.segs {
						rg.r.Segs = append(rg.r.Segs, sg.seg)
					}
					rt = rg.r
				}
			}
			call++
			m := pick(rng, methods)
			if kind == "reg" && rng.Intn(25) == 0 {
				m = pick(rng, []string{"BREW", "get ", "", "G E T"})
			}
			c.H = append(c.H, hEntry{M: m, R: rt, Ok: true, Hdr: []hdrC{}, Call: call})
			rgs = append(rgs, rg)
			if n := len(rt.Segs); kind == "hdr" && rng.Intn(9) == 0 && n >= 2 && rt.Segs[n-1].K == "S" && !rt.Segs[n-1].Opt && rt.Gram {
				// a multi-method registration that is rejected PART-WAY and what comes after it: POST has the short form, so
				// Any(<route with its last segment optional>) fails at POST (GET and HEAD are in by then, the rest was never
				// tried); the same route is then registered for later methods one by one, which must be accepted
				short, opt := rt, rt
				short.Segs = append([]aSeg{}, rt.Segs[:n-1]...)
				opt.Segs = append([]aSeg{}, rt.Segs...)
				opt.Segs[n-1].Opt = true
				c.H[len(c.H)-1] = hEntry{M: "POST", R: short, Ok: true, Hdr: []hdrC{}, Call: call}
				call++
				for _, m2 := range nineMethods {
					c.H = append(c.H, hEntry{M: m2, R: opt, Ok: true, Hdr: []hdrC{}, Call: call, Ck: "any"})
					rgs = append(rgs, rg)
				}
				for _, m2 := range []string{"PUT", "DELETE", "TRACE"}[:1+rng.Intn(3)] {
					call++
					c.H = append(c.H, hEntry{M: m2, R: opt, Ok: true, Hdr: []hdrC{}, Call: call})
					rgs = append(rgs, rg)
				}
			} else if kind == "hdr" && rng.Intn(8) == 0 && m == "GET" {
				// the same route for all nine methods through ONE Any() call (the handle holds nine leaves)
				c.H[len(c.H)-1].Ck = "any"
				for _, m2 := range nineMethods[1:] {
					c.H = append(c.H, hEntry{M: m2, R: rt, Ok: true, Hdr: []hdrC{}, Call: call, Ck: "any"})
					rgs = append(rgs, rg)
				}
			} else if kind == "hdr" && rng.Intn(8) == 0 && len(rt.Segs) >= 2 && rt.Segs[len(rt.Segs)-1].K == "S" && !rt.Segs[len(rt.Segs)-1].Opt {
				// the optional variant of this route was registered for ONE of the methods just before a two-method call:
				// whether a leaf may be looked up in the static table is a per-method question
				opt := rt
				opt.Segs = append([]aSeg{}, rt.Segs...)
				opt.Segs[len(opt.Segs)-1].Opt = true
				c.H[len(c.H)-1] = hEntry{M: "POST", R: opt, Ok: true, Hdr: []hdrC{}, Call: call}
				call++
				if rng.Intn(2) == 0 {
					c.H = append(c.H, hEntry{M: "GET", R: rt, Ok: true, Hdr: []hdrC{}, Call: call, Ck: "routes"},
						hEntry{M: "POST", R: rt, Ok: true, Hdr: []hdrC{}, Call: call, Ck: "routes"})
					rgs = append(rgs, rg, rg)
				} else {
					// ... or just before ONE Any() call (a single addRoute over all nine methods)
					for _, m2 := range nineMethods {
						c.H = append(c.H, hEntry{M: m2, R: rt, Ok: true, Hdr: []hdrC{}, Call: call, Ck: "any"})
						rgs = append(rgs, rg)
					}
				}
			} else if kind == "hdr" && rng.Intn(8) == 0 && m == "GET" {
				// Get() under AutoHead: GET and HEAD through one call, one handle
				c.H[len(c.H)-1].Ck = "autohead"
				c.H = append(c.H, hEntry{M: "HEAD", R: rt, Ok: true, Hdr: []hdrC{}, Call: call, Ck: "autohead"})
				rgs = append(rgs, rg)
			} else if kind == "hdr" && rng.Intn(4) == 0 {
				// the same route for a second method through ONE Routes() call (one handle)
				m2 := pick(rng, []string{"POST", "HEAD", "PUT"})
				if m2 != m {
					c.H[len(c.H)-1].Ck = "routes"
					c.H = append(c.H, hEntry{M: m2, R: rt, Ok: true, Hdr: []hdrC{}, Call: call, Ck: "routes"})
					rgs = append(rgs, rg)
				}
			}
		}
		switch kind {
		case "prio", "reg", "hdr":
			c.Via = "both"
			if kind == "hdr" {
				c.Via = "flame"
				nh := 1 + rng.Intn(4)
				for k := 0; k < nh; k++ {
					reg := 1 + rng.Intn(len(c.H))
					for reg > 1 && c.H[reg-2].Call == c.H[reg-1].Call {
						reg-- // hops name the first registration of the call
					}
					var hs []hdrC
					seen := map[string]bool{}
					for q := rng.Intn(4); q > 0; q-- {
						hc := hdrExprs[rng.Intn(len(hdrExprs))]
						if !seen[hc.Name] {
							seen[hc.Name] = true
							hs = append(hs, hc)
						} else if !seen["2:"+hc.Name] {
							// the SAME header constrained a second time under another spelling of its name: two constraints,
							// both must hold (the first is pinned to the canonical spelling, this one to lower case)
							seen["2:"+hc.Name] = true
							for i := range hs {
								if hs[i].Name == hc.Name {
									hs[i].Sp = 1
								}
							}
							hc.Sp = 2
							hs = append(hs, hc)
						}
					}
					if hs == nil {
						hs = []hdrC{}
					}
					c.Hops = append(c.Hops, hop{Reg: reg, Hdr: hs})
				}
			}
			for j, rg := range rgs {
				// one request spelled exactly like the route text (route syntax characters as literal path text)
				if rng.Intn(3) == 0 {
					rq := treeReq{M: c.H[j].M, Raw: encBytes(c.H[j].R.text())}
					if kind == "hdr" {
						rq.H = randReqHdr(rng)
					}
					c.Reqs = append(c.Reqs, rq)
				}
				for k := 0; k < 4; k++ {
					p := rg.instance(rng)
					if k > 0 && k < 3 {
						p = mutatePath(rng, p)
					}
					if k == 3 {
						// the same instance with its percent-escapes decoded: a DIFFERENT path (routing works on URL.Path as it is)
						q := make([]string, len(p))
						changed := false
						for i, sgm := range p {
							q[i] = sgm
							if u, err := url.PathUnescape(sgm); err == nil && u != sgm && !strings.Contains(u, "/") {
								q[i], changed = u, true
							}
						}
						if !changed {
							continue
						}
						p = q
					}
					raw := strings.Repeat("/", 1+rng.Intn(10)/8) + strings.Join(p, "/")
					rq := treeReq{M: c.H[j].M, Raw: encBytes(raw)}
					if kind == "hdr" {
						rq.H = randReqHdr(rng)
						if rng.Intn(4) == 0 {
							rq.M = pick(rng, methods)
						}
						if rng.Intn(6) == 0 {
							rq.M = pick(rng, []string{"get", "Get", "post", "hEAD"}) // not the registered method: no route, table or tree
						}
					}
					c.Reqs = append(c.Reqs, rq)
				}
			}
		case "hostile":
			c.Via = "flame"
			// some routes carry header constraints: "any headers" must be survivable for them too
			for k := rng.Intn(3); k > 0; k-- {
				reg := 1 + rng.Intn(len(c.H))
				hc := hdrExprs[rng.Intn(len(hdrExprs))]
				c.Hops = append(c.Hops, hop{Reg: reg, Hdr: []hdrC{hc}})
			}
			for k := 0; k < 12; k++ {
				m := pick(rng, []string{"GET", "GET", "POST", "HEAD", "BREW", "get", "", "PROPFIND", strings.Repeat("X", 300)})
				raw := hostilePath(rng)
				if rng.Intn(3) == 0 && len(rgs) > 0 {
					raw = "/" + strings.Join(mutatePath(rng, rgs[rng.Intn(len(rgs))].instance(rng)), "/")
				}
				if rng.Intn(5) == 0 && len(rgs) > 0 {
					// method and path that only TOGETHER spell a known method followed by an admitted path ("G" + "ET/a/b"):
					// the method is unknown, whatever the path is
					km := pick(rng, []string{"GET", "POST", "HEAD"})
					cut := rng.Intn(len(km))
					m = km[:cut]
					raw = km[cut:] + "/" + strings.Join(rgs[rng.Intn(len(rgs))].instance(rng), "/")
				}
				rq := treeReq{M: m, Raw: encBytes(raw), H: randReqHdr(rng)}
				if rng.Intn(3) == 0 && len(rgs) > 0 {
					// a middleware serves another route's instance as a nested request before this chain goes on
					rq.Nest = encBytes("/" + strings.Join(rgs[rng.Intn(len(rgs))].instance(rng), "/"))
				}
				c.Reqs = append(c.Reqs, rq, rq) // every request twice: the outcome is a function of the request
			}
		case "url":
			c.Via = "flame"
			for j := range c.H {
				c.Names = append(c.Names, nameCall{Reg: j + 1, Name: fmt.Sprintf("n%d", j+1)})
			}
			if rng.Intn(3) == 0 {
				c.Names = append(c.Names, nameCall{Reg: 1, Name: pick(rng, []string{"", "n1", "other"})})
			}
			for k := 0; k < 8; k++ {
				j := rng.Intn(len(c.H))
				u := urlCall{Reg: j + 1, WithOpt: rng.Intn(2) == 0, Vals: [][]string{}}
				var names []string
				for _, s := range c.H[j].R.Segs {
					names = append(names, s.Binds...)
				}
				names = append(names, "zz")
				for _, nm := range names {
					if rng.Intn(3) > 0 && nm != "**" {
						u.Vals = append(u.Vals, []string{nm, encBytes(strings.ReplaceAll(pick(rng, urlVals), "p1", names[0]))})
					}
				}
				if rng.Intn(10) == 0 {
					u.Reg = 0
				}
				c.URLs = append(c.URLs, u)
			}
		}
		_ = out.Encode(c)
	}
}
