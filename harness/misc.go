package main

// Specification growth beyond the listed properties: RemoteAddr, Redirect, SetEnv, Logger.

import (
	"bytes"
	"encoding/json"
	"math/rand"
	"net/http"
	"net/http/httptest"
	"regexp"
	"strconv"
	"strings"

	"github.com/flamego/flamego"
)

type miscCase struct {
	XReal string `json:"xreal"`
	XFwd  string `json:"xfwd"`
	Given bool   `json:"given"`
	Env   string `json:"env"`
	Arg   string `json:"arg"`
	RAddr string `json:"raddr,omitempty"`
	Code  int    `json:"code,omitempty"`
	Loc   string `json:"loc,omitempty"`
}

var reLogStatus = regexp.MustCompile(`status=(\d+)`)

func miscReplay(raw json.RawMessage, idx int, tr *traceWriter) {
	var c miscCase
	if err := json.Unmarshal(raw, &c); err != nil {
		panic(err)
	}
	if c.RAddr == "" {
		c.RAddr = "9.9.9.9:1234"
	}
	if c.Code == 0 {
		c.Code = 307
	}
	if c.Loc == "" {
		c.Loc = "/target"
	}
	tr.emit(map[string]interface{}{"case": idx, "ev": "reset", "input": c, "nt": true})
	// SetEnv
	flamego.SetEnv(flamego.EnvType(c.Env))
	before := string(flamego.Env())
	flamego.SetEnv(flamego.EnvType(c.Arg))
	tr.emit(map[string]interface{}{"ev": "setenv", "before": before, "arg": c.Arg, "after": string(flamego.Env())})
	flamego.SetEnv(flamego.EnvTypeDev)
	// RemoteAddr, Redirect, Logger on one request
	var logbuf bytes.Buffer
	f := flamego.NewWithLogger(&logbuf)
	f.Use(flamego.Logger())
	remote := ""
	f.Get("/r", func(ctx flamego.Context) {
		remote = ctx.RemoteAddr()
		if c.Given {
			ctx.Redirect(c.Loc, c.Code)
		} else {
			ctx.Redirect(c.Loc)
		}
	})
	req, _ := http.NewRequest("GET", "/r", nil)
	req.RemoteAddr = c.RAddr
	if c.XReal != "" {
		req.Header.Set("X-Real-IP", c.XReal)
	}
	if c.XFwd != "" {
		req.Header.Set("X-Forwarded-For", c.XFwd)
	}
	w := httptest.NewRecorder()
	f.ServeHTTP(w, req)
	host := c.RAddr
	if i := strings.LastIndex(host, ":"); i > -1 {
		host = host[:i]
	}
	tr.emit(map[string]interface{}{"ev": "remoteaddr", "xreal": c.XReal, "xfwd": c.XFwd, "host": host, "out": remote})
	tr.emit(map[string]interface{}{"ev": "redirect", "given": c.Given, "code": c.Code, "loc": c.Loc, "status": w.Code, "location": w.Header().Get("Location")})
	logged := -1
	if m := reLogStatus.FindAllStringSubmatch(logbuf.String(), -1); len(m) > 0 {
		logged, _ = strconv.Atoi(m[len(m)-1][1])
	}
	tr.emit(map[string]interface{}{"ev": "logger", "logged": logged, "status": w.Code})
}

func miscGen(seed int64, n int, args []string, out *json.Encoder) {
	rng := rand.New(rand.NewSource(seed))
	envs := []string{"development", "production", "test", "", "staging", "PRODUCTION", "dev", "test "}
	for i := 0; i < n; i++ {
		c := miscCase{Given: rng.Intn(2) == 0, Env: envs[rng.Intn(3)], Arg: envs[rng.Intn(len(envs))],
			Code: []int{301, 302, 303, 307, 308}[rng.Intn(5)], Loc: []string{"/a", "/a/b?x=1", "https://example.com/x", "/"}[rng.Intn(4)],
			RAddr: []string{"1.2.3.4:80", "[::1]:8080", "host", "10.0.0.1:0"}[rng.Intn(4)]}
		if rng.Intn(2) == 0 {
			c.XReal = []string{"8.8.8.8", "::1", "x"}[rng.Intn(3)]
		}
		if rng.Intn(2) == 0 {
			c.XFwd = []string{"7.7.7.7", "1.1.1.1, 2.2.2.2"}[rng.Intn(2)]
		}
		_ = out.Encode(c)
	}
}

func init() { modules["misc"] = &module{gen: miscGen, replay: miscReplay} }
