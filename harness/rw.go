package main

import (
	"bytes"
	"encoding/json"
	"io"
	"math/rand"
	"net/http"

	"github.com/flamego/flamego"
)

// ---- C13: ResponseWriter ----

type rwOp struct {
	Op   string `json:"op"`
	Code int    `json:"code"`
	N    int    `json:"n"`
	Acc  int    `json:"acc"`
	Hook string `json:"hook"`
}

type rwStep struct {
	O rwOp `json:"o"`
}

type rwCase struct {
	Method  string   `json:"method"`
	Flusher *bool    `json:"flusher,omitempty"` // whether the underlying writer implements http.Flusher (default true)
	Steps   []rwStep `json:"steps"`
	Wrap    int      `json:"wrap,omitempty"` // 3: the writer handed to NewResponseWriter is itself a flamego ResponseWriter (created for GET), e.g. a nested Flame; 1, 2: it is not; 2: body writes are made with io.Copy
}

// rwSpyPlain is the same spy without Flush / Push: an underlying writer that is only an http.ResponseWriter.
type rwSpyPlain struct{ s *rwSpy }

func (p rwSpyPlain) Header() http.Header         { return p.s.Header() }
func (p rwSpyPlain) WriteHeader(c int)           { p.s.WriteHeader(c) }
func (p rwSpyPlain) Write(b []byte) (int, error) { return p.s.Write(b) }

type rwEntry struct {
	K string `json:"k"`
	V int    `json:"v"`
	H string `json:"h"`
}

// rwSpy is the underlying http.ResponseWriter; it records everything that
// reaches it. Write accepts the scripted number of bytes.
type rwSpy struct {
	hdr    http.Header
	log    []rwEntry
	accept int
	short  int
}

func (s *rwSpy) Header() http.Header { return s.hdr }
func (s *rwSpy) WriteHeader(c int)   { s.log = append(s.log, rwEntry{K: "hdr", V: c}) }
func (s *rwSpy) Write(b []byte) (int, error) {
	n := s.accept
	if n > len(b) {
		n = len(b)
	}
	s.log = append(s.log, rwEntry{K: "body", V: n})
	if n < len(b) {
		// a short write comes with an error, as io.Writer demands (every other time: a writer that breaks that rule)
		s.short++
		if s.short%2 == 1 {
			return n, io.ErrShortWrite
		}
	}
	return n, nil
}
// ReadFrom makes the spy an io.ReaderFrom, like the response writer of a net/http server connection: whoever hands it a
// source directly has it written as a body
func (s *rwSpy) ReadFrom(r io.Reader) (int64, error) {
	b, err := io.ReadAll(r)
	if err != nil {
		return 0, err
	}
	n, err := s.Write(b)
	return int64(n), err
}
func (s *rwSpy) Flush() { s.log = append(s.log, rwEntry{K: "flush"}) }
func (s *rwSpy) Push(string, *http.PushOptions) error {
	s.log = append(s.log, rwEntry{K: "push"})
	return nil
}

func rwReplay(raw json.RawMessage, idx int, tr *traceWriter) {
	var c rwCase
	if err := json.Unmarshal(raw, &c); err != nil {
		panic(err)
	}
	if c.Wrap == 0 {
		c.Wrap = 1 + (idx+len(c.Steps))%3
	}
	tr.emit(map[string]interface{}{"ev": "reset", "case": idx, "method": c.Method, "input": c})
	spy := &rwSpy{hdr: http.Header{}}
	var under http.ResponseWriter = spy
	if c.Flusher != nil && !*c.Flusher {
		under = rwSpyPlain{spy}
	}
	if c.Wrap == 3 {
		// a transparent layer: what the outer writer (the one under test, created for c.Method) forwards is what reaches the spy
		under = flamego.NewResponseWriter("GET", under)
	}
	w := flamego.NewResponseWriter(c.Method, under)
	for _, st := range c.Steps {
		o := st.O
		switch o.Op {
		case "WriteHeader":
			w.WriteHeader(o.Code)
		case "Write":
			spy.accept = o.Acc
			if c.Wrap == 2 && o.N > 0 {
				// the body is streamed with io.Copy from a source without WriteTo (a file, an upstream body): one Write of N bytes
				// to a writer without ReadFrom, and Copy looks for ReadFrom on the destination first
				_, _ = io.Copy(w, io.LimitReader(bytes.NewReader(make([]byte, o.N)), int64(o.N)))
			} else {
				_, _ = w.Write(make([]byte, o.N))
			}
		case "Flush":
			w.Flush()
		case "Before":
			id := o.Hook
			w.Before(func(rw flamego.ResponseWriter) {
				// the hook records the Status() it observes itself
				spy.log = append(spy.log, rwEntry{K: "hook", V: rw.Status(), H: id})
				rw.Header().Set("X-Hook-"+id, "1")
			})
		case "Push":
			_ = w.Push("/x", nil)
		}
		lg := make([]rwEntry, len(spy.log))
		copy(lg, spy.log)
		tr.emit(map[string]interface{}{
			"ev": "op", "o": o, "status": w.Status(), "size": w.Size(), "written": w.Written(), "log": lg,
		})
	}
}

func rwGen(seed int64, n int, args []string, out *json.Encoder) {
	rng := rand.New(rand.NewSource(seed))
	maxLen := 50
	methods := []string{"GET", "HEAD", "POST", "PUT", "DELETE", "OPTIONS", "PATCH"}
	for i := 0; i < n; i++ {
		c := rwCase{Method: methods[rng.Intn(len(methods))]}
		if rng.Intn(3) == 0 {
			nf := false
			c.Flusher = &nf
		}
		k := 1 + rng.Intn(maxLen)
		hookN := 0
		for j := 0; j < k; j++ {
			var o rwOp
			switch r := rng.Intn(10); {
			case r < 2:
				// any code, the informational ones included: the wrapper treats a status as a status (what net/http
				// makes of 1xx on the wire is below the underlying writer)
				o = rwOp{Op: "WriteHeader", Code: 100 + rng.Intn(500)}
				if rng.Intn(6) == 0 {
					o.Code = []int{100, 102, 103, 101, 199}[rng.Intn(5)]
				}
			case r < 5:
				nn := rng.Intn(40)
				o = rwOp{Op: "Write", N: nn, Acc: nn}
				if nn > 0 && rng.Intn(4) == 0 {
					o.Acc = rng.Intn(nn + 1)
				}
			case r < 6:
				o = rwOp{Op: "Flush"}
			case r < 9:
				hookN++
				o = rwOp{Op: "Before", Hook: "h" + itoa(hookN)}
			default:
				o = rwOp{Op: "Push"}
			}
			c.Steps = append(c.Steps, rwStep{O: o})
		}
		_ = out.Encode(c)
	}
}

func init() { modules["rw"] = &module{gen: rwGen, replay: rwReplay} }
