---- MODULE RouteSyntaxTrace ----
(***************************************************************************)
(* Trace validation for C06: every Parser.Parse call recorded by the       *)
(* harness                                                                 *)
(*  parse{cs, ch, di, da, ok, panicked, canon, toks, reparse_ok, canon2,   *)
(*        toks2}                                                           *)
(* cs = class per character, ch = the characters, di/da = membership of    *)
(* each character in the README's <char> / <any> sets (read from the       *)
(* repository under test), canon = Route.String() as characters, toks =    *)
(* the AST flattened, *2 = the same after parsing canon again.             *)
(***************************************************************************)
EXTENDS RouteSyntaxP, TraceBase
CONSTANT Dev
tvars == <<l>>
TInit == LInit
TReset == IsEv("reset")
Judge(e, id, an) ==
  /\ ~e.panicked                                         \* total: a route or an error, never a panic
  /\ e.ok = Derives(e.cs, id, an)                        \* accepts exactly the grammar
  /\ e.ok => /\ e.toks = P_Tokens(e.ch, e.cs, id)        \* the structure mirrors the derivation
             /\ e.canon = P_Canon(e.ch, e.cs)            \* canonical form = input with normalised blanks
             /\ e.reparse_ok /\ e.canon2 = e.canon /\ e.toks2 = e.toks    \* and is a fix-point
TParse == /\ IsEv("parse")
          /\ LET e == Tr[l] IN
             Verdict(IF Judge(e, e.di, e.da) THEN "ok"
                     ELSE IF "D12" \in Dev /\ Judge(e, FlagsOf(e.cs, IdentLex), FlagsOf(e.cs, RegexLex)) THEN "D12"
                     ELSE "bad")
\* freshly parsed routes rendered for the first time by several goroutines at once: each rendering is the canonical
\* string of its own route (the same as when rendered alone)
TRenderConc == IsEv("renderconc") /\ Verdict(IF Tr[l].differing = 0 THEN "ok" ELSE "bad")
TNext == TReset \/ TParse \/ TRenderConc
TSpec == TInit /\ [][TNext]_tvars
====
