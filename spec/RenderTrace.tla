---- MODULE RenderTrace ----
(* Trace validation for C17: render{fmt, status_in, cs, indent, pos, resolved, status, ctype, ctype_at_hdr, roundtrip, body_eq_std, panicked} *)
EXTENDS RenderP, TraceBase
CONSTANT Dev
tvars == <<l>>
TInit == LInit
TReset == IsEv("reset")
TRender == /\ IsEv("render")
           /\ LET e == Tr[l] IN Verdict(IF ~e.panicked /\ P_RenderOK(e.fmt, e.status_in, e.cs, e.pos, e) THEN "ok" ELSE "bad")
TNext == TReset \/ TRender
TSpec == TInit /\ [][TNext]_tvars
====
