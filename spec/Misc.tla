---- MODULE Misc ----
(* layer I: the code shape of context.RemoteAddr / Redirect and flame.SetEnv over small value sets, against MiscP *)
EXTENDS MiscP, Json
CONSTANTS Dev, EmitCases
VARIABLES xreal, xfwd, given, env, arg
vars == <<xreal, xfwd, given, env, arg>>
Init == /\ xreal \in {"", "1.1.1.1"} /\ xfwd \in {"", "2.2.2.2"} /\ given \in BOOLEAN
        /\ env \in Envs /\ arg \in Envs \cup {"", "staging", "PRODUCTION"}
Next == UNCHANGED vars
Spec == Init /\ [][Next]_vars
I_RemoteAddr == IF "FWDFIRST" \in Dev
                THEN (IF xfwd # "" THEN xfwd ELSE IF xreal # "" THEN xreal ELSE "HOST")      \* negative control
                ELSE (IF xreal # "" THEN xreal ELSE IF xfwd # "" THEN xfwd ELSE "HOST")
I_RedirectStatus == IF given THEN 307 ELSE 302
I_SetEnv == IF arg = "development" \/ arg = "production" \/ arg = "test" THEN arg ELSE env
Conforms == /\ I_RemoteAddr = P_RemoteAddr(xreal, xfwd, "HOST")
            /\ I_RedirectStatus = P_RedirectStatus(given, 307)
            /\ I_SetEnv = P_SetEnv(env, arg)
EmitCase == EmitCases => PrintT("CASE " \o ToJson([xreal |-> xreal, xfwd |-> xfwd, given |-> given, env |-> env, arg |-> arg]))
====
