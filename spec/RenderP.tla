---- MODULE RenderP ----
(***************************************************************************)
(* C17, property layer: what JSON / XML / Binary / PlainText must send.    *)
(* charset "" means "not configured" (default utf-8).  Encoding fidelity   *)
(* cannot be expressed over uninterpreted bytes: it enters as the logged   *)
(* facts `roundtrip` (the body decodes back to the value with the standard *)
(* decoder) and `body_eq_std` (the body equals what the standard encoder   *)
(* produces with the configured indentation), which the spec requires.     *)
(***************************************************************************)
EXTENDS Naturals, Sequences, FiniteSets, TLC
Formats == {"JSON", "XML", "Binary", "PlainText"}
Charset(cs) == IF cs = "" THEN "utf-8" ELSE cs
P_ContentType(fmt, cs) ==
  CASE fmt = "JSON" -> "application/json; charset=" \o Charset(cs)
    [] fmt = "XML" -> "text/xml; charset=" \o Charset(cs)
    [] fmt = "Binary" -> "application/octet-stream"
    [] fmt = "PlainText" -> "text/plain; charset=" \o Charset(cs)
\* an observation o = [resolved, status, ctype, ctype_at_hdr, roundtrip, body_eq_std]
P_RenderOK(fmt, status_in, cs, pos, o) ==
  IF pos = "before" THEN ~o.resolved            \* Render is only available AFTER the Renderer middleware ran
  ELSE /\ o.resolved
       /\ o.status = status_in                  \* exactly the given status
       /\ o.ctype = P_ContentType(fmt, cs)
       /\ o.ctype_at_hdr = o.ctype              \* the header was in place when the status went out
       /\ o.roundtrip /\ o.body_eq_std
====
