---- MODULE Accessors ----
(***************************************************************************)
(* C18, layer I: the branch structure of each accessor in context.go over  *)
(* symbolic values, against the single rule of AccessorsP.  The symbols    *)
(* DEF / CONV / ZERO / RAW stand for the default, the converted present    *)
(* value, the zero value and the raw present value; F(x) = the accessor's  *)
(* post-processing applied to x (trim, unescape).                          *)
(***************************************************************************)
EXTENDS AccessorsP, Json
CONSTANTS Dev,       \* "D10": QueryTrim / QueryUnescape post-process whatever Query() returned, including the default
          EmitCases
VARIABLES fn, class, hasdef
vars == <<fn, class, hasdef>>
Init == fn \in Accessors /\ class \in Classes /\ hasdef \in BOOLEAN
Next == UNCHANGED vars
Spec == Init /\ [][Next]_vars
\* c.Query(name, def...): the raw value, or the default when it is empty
QueryRaw == IF class \in {"absent", "empty"} THEN (IF hasdef THEN "DEF" ELSE "ZERO") ELSE "RAW"
Conv(x) == CASE x = "RAW" -> (IF class = "ok" THEN "CONV" ELSE IF class = "malformed" THEN "ZERO" ELSE "CLAMP")
             [] x = "DEF" -> "F(DEF)" [] x = "ZERO" -> "ZERO"
I_Access ==
  CASE fn = "Query" -> (IF QueryRaw = "RAW" THEN "CONV" ELSE QueryRaw)
    [] fn \in {"QueryTrim", "QueryUnescape"} ->
         IF "D10" \in Dev THEN Conv(QueryRaw)                       \* strings.TrimSpace(c.Query(name, def...))
         ELSE (IF QueryRaw = "RAW" THEN Conv("RAW") ELSE QueryRaw)
    [] fn = "QueryStrings" -> (IF class \in {"absent"} THEN (IF hasdef THEN "DEF" ELSE "ZERO") ELSE "CONV")
    [] fn \in {"QueryBool", "QueryInt", "QueryInt64", "QueryFloat64"} ->
         IF class \in {"absent", "empty"} /\ hasdef THEN "DEF" ELSE IF class \in {"absent", "empty"} THEN "ZERO" ELSE Conv("RAW")
    [] fn \in {"Param", "ParamInt", "ParamInt64", "Cookie"} ->
         IF class \in {"absent", "empty"} THEN "ZERO" ELSE Conv("RAW")
Applicable == ~(fn = "QueryStrings" /\ class = "empty")        \* a list with one empty string is a present value
              /\ (class \in {"malformed", "range"} => fn \in {"QueryBool", "QueryInt", "QueryInt64", "QueryFloat64", "ParamInt", "ParamInt64", "QueryUnescape", "Cookie"})
              /\ (class = "range" => fn \in {"QueryInt", "QueryInt64", "QueryFloat64", "ParamInt", "ParamInt64"})
Sym(x) == IF x = "CLAMP" THEN "CONV" ELSE x
Conforms == Applicable => Sym(I_Access) \in P_Access(fn, class, hasdef, "DEF", "CONV", "ZERO")
EmitCase == (EmitCases /\ Applicable) => PrintT("CASE " \o ToJson([fn |-> fn, class |-> class, hasdef |-> hasdef]))
====
