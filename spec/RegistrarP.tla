---- MODULE RegistrarP ----
(***************************************************************************)
(* C11: Group / Combo / Routes / Any / AutoHead equal their flat expansion.*)
(* A registration PROGRAM is a sequence of instructions                    *)
(*   [op "group", path, hs]  ... [op "end"]      Group(path, fn, hs...)    *)
(*   [op "route", ms, path, hs]                  Routes(path, "M1,M2", hs) *)
(*   [op "any", path, hs]  [op "get", path, hs]  Any / Get                 *)
(*   [op "combo", path, hs, calls]               Combo(path, hs).M(hs')... *)
(*   [op "autohead", v]                          AutoHead(v)               *)
(*   [op "cdecl", cid, path, hs]                 c := Combo(path, hs...)   *)
(*   [op "ccall", cid, m, hs]                    c.M(hs'...)  - anywhere   *)
(*     later: the route is registered where the METHOD is called, with the *)
(*     groups open there                                                   *)
(* Layer P (Flatten) is positional: the registrations of instruction i     *)
(* get the paths / handlers of the groups still open at i (outermost       *)
(* first) and the AutoHead value set by the last autohead before i.        *)
(* Layer I (Exec) runs the program with the router's living group stack.   *)
(***************************************************************************)
EXTENDS Naturals, Sequences, FiniteSets, TLC
CONSTANT Dev     \* negative control "NOPOP": leaving a group does not pop the stack
Methods9 == <<"GET", "POST", "PUT", "DELETE", "PATCH", "OPTIONS", "HEAD", "CONNECT", "TRACE">>
Reg(m, path, hs) == [m |-> m, path |-> path, hs |-> hs]

RECURSIVE ConcatPaths(_, _)
ConcatPaths(gs, i) == IF i > Len(gs) THEN "" ELSE gs[i].path \o ConcatPaths(gs, i + 1)
RECURSIVE ConcatHs(_, _)
ConcatHs(gs, i) == IF i > Len(gs) THEN <<>> ELSE gs[i].hs \o ConcatHs(gs, i + 1)

\* registrations of ONE instruction given prefix, group handlers and the AutoHead flag
GetRegs(path, hs, ah) == <<Reg("GET", path, hs)>> \o (IF ah THEN <<Reg("HEAD", path, hs)>> ELSE <<>>)
RECURSIVE ComboRegs(_, _, _, _, _)
ComboRegs(calls, i, path, hs, ah) ==
  IF i > Len(calls) THEN <<>>
  ELSE (IF calls[i].m = "GET" THEN GetRegs(path, hs \o calls[i].hs, ah) ELSE <<Reg(calls[i].m, path, hs \o calls[i].hs)>>)
       \o ComboRegs(calls, i + 1, path, hs, ah)
\* a method list: every entry is one registration, "*" stands for all nine methods
RECURSIVE MsRegs(_, _, _, _)
MsRegs(ms, k, path, hs) ==
  IF k > Len(ms) THEN <<>>
  ELSE (IF ms[k] = "*" THEN [j \in 1..9 |-> Reg(Methods9[j], path, hs)] ELSE <<Reg(ms[k], path, hs)>>) \o MsRegs(ms, k + 1, path, hs)
KnownMethod(m) == m = "*" \/ \E j \in 1..9 : Methods9[j] = m
InsRegs(ins, prefix, ghs, ah) ==
  CASE ins.op = "route" -> MsRegs(ins.ms, 1, prefix \o ins.path, ghs \o ins.hs)
    [] ins.op = "any"   -> [k \in 1..9 |-> Reg(Methods9[k], prefix \o ins.path, ghs \o ins.hs)]
    [] ins.op = "get"   -> GetRegs(prefix \o ins.path, ghs \o ins.hs, ah)
    [] ins.op = "combo" -> ComboRegs(ins.calls, 1, prefix \o ins.path, ghs \o ins.hs, ah)
    [] OTHER -> <<>>
\* Combo refuses the same method twice: the call panics and the program stops there
ComboDupAt(ins) == IF ins.op # "combo" THEN 0
                   ELSE LET D == { i \in 1..Len(ins.calls) : \E j \in 1..(i - 1) : ins.calls[j].m = ins.calls[i].m }
                        IN IF D = {} THEN 0 ELSE CHOOSE i \in D : \A j \in D : i <= j

\* a kept Combo value: declaration and method calls are separate instructions
CDecl(p, cid) == p[CHOOSE j \in 1..Len(p) : p[j].op = "cdecl" /\ p[j].cid = cid]
CCallDup(p, i) == p[i].op = "ccall" /\ \E j \in 1..(i - 1) : p[j].op = "ccall" /\ p[j].cid = p[i].cid /\ p[j].m = p[i].m
CCallRegs(p, i, prefix, ghs, ah) ==
  LET d == CDecl(p, p[i].cid)
      path == prefix \o d.path
      hs == ghs \o d.hs \o p[i].hs
  IN IF p[i].m = "GET" THEN GetRegs(path, hs, ah) ELSE <<Reg(p[i].m, path, hs)>>

(* ------------------------------ layer P ------------------------------- *)
\* groups open at position i: the "group" instructions before i whose matching "end" is not before i
RECURSIVE Depth(_, _)
Depth(p, i) == IF i = 0 THEN 0
               ELSE Depth(p, i - 1) + (IF p[i].op = "group" THEN 1 ELSE 0) - (IF p[i].op = "end" THEN 1 ELSE 0)
OpenAt(p, i) == { j \in 1..(i - 1) : p[j].op = "group" /\ \A k \in (j + 1)..(i - 1) : Depth(p, k) >= Depth(p, j) }
RECURSIVE SortedSeq(_)
SortedSeq(S) == IF S = {} THEN <<>> ELSE LET x == CHOOSE x \in S : \A y \in S : x <= y IN <<x>> \o SortedSeq(S \ {x})
GroupsAt(p, i) == LET o == SortedSeq(OpenAt(p, i)) IN [k \in 1..Len(o) |-> p[o[k]]]
AutoHeadAt(p, i) == LET A == { j \in 1..(i - 1) : p[j].op = "autohead" }
                    IN IF A = {} THEN FALSE ELSE p[CHOOSE j \in A : \A k \in A : k <= j].v
RECURSIVE FlattenFrom(_, _)
FlattenFrom(p, i) ==
  IF i > Len(p) THEN <<>>
  ELSE LET gs == GroupsAt(p, i)
           ah == AutoHeadAt(p, i)
           d == ComboDupAt(p[i])
       IN IF d # 0   \* the duplicate call panics: the calls before it are registered, nothing after
          THEN ComboRegs(SubSeq(p[i].calls, 1, d - 1), 1, ConcatPaths(gs, 1) \o p[i].path, ConcatHs(gs, 1) \o p[i].hs, ah)
          ELSE IF CCallDup(p, i) THEN <<>>
          ELSE IF p[i].op = "ccall" THEN CCallRegs(p, i, ConcatPaths(gs, 1), ConcatHs(gs, 1), ah) \o FlattenFrom(p, i + 1)
          ELSE InsRegs(p[i], ConcatPaths(gs, 1), ConcatHs(gs, 1), ah) \o FlattenFrom(p, i + 1)
P_Flatten(p) == FlattenFrom(p, 1)
\* a program panics when Combo is given a method twice, when a method is unknown or when a (method, path) is registered twice (C08)
P_Panics(p) == \/ \E i \in 1..Len(p) : ComboDupAt(p[i]) # 0 \/ CCallDup(p, i)
               \/ \E i \in 1..Len(p) : p[i].op = "route" /\ \E k \in 1..Len(p[i].ms) : ~KnownMethod(p[i].ms[k])   \* C08: unknown method
               \/ LET f == P_Flatten(p) IN \E a, b \in 1..Len(f) : a # b /\ f[a].m = f[b].m /\ f[a].path = f[b].path

(* ------------------------------ layer I ------------------------------- *)
\* the router: living group stack + autoHead flag, instruction by instruction
RECURSIVE ExecFrom(_, _, _, _)
ExecFrom(p, i, stack, ah) ==
  IF i > Len(p) THEN <<>>
  ELSE LET ins == p[i] IN
       CASE ins.op = "group" -> ExecFrom(p, i + 1, Append(stack, ins), ah)
         [] ins.op = "end" -> ExecFrom(p, i + 1, IF "NOPOP" \in Dev THEN stack ELSE SubSeq(stack, 1, Len(stack) - 1), ah)
         [] ins.op = "autohead" -> ExecFrom(p, i + 1, stack, ins.v)
         [] ins.op = "ccall" -> IF CCallDup(p, i) THEN <<>>
                                ELSE CCallRegs(p, i, ConcatPaths(stack, 1), ConcatHs(stack, 1), ah) \o ExecFrom(p, i + 1, stack, ah)
         [] OTHER -> IF ComboDupAt(ins) # 0
                     THEN ComboRegs(SubSeq(ins.calls, 1, ComboDupAt(ins) - 1), 1, ConcatPaths(stack, 1) \o ins.path, ConcatHs(stack, 1) \o ins.hs, ah)
                     ELSE InsRegs(ins, ConcatPaths(stack, 1), ConcatHs(stack, 1), ah) \o ExecFrom(p, i + 1, stack, ah)
I_Exec(p) == ExecFrom(p, 1, <<>>, FALSE)
====
