---- MODULE Capture ----
(***************************************************************************)
(* C02, character level: how one regex-style segment captures from one     *)
(* path segment.  A segment is a sequence of elements                      *)
(*     [ty "lit", cs]            literal characters                        *)
(*     [ty "bind", name, lang]   a bind with a language:                   *)
(*         "any+"  (.+)  a bare {x} inside a multi-element segment         *)
(*         "ab+"   [ab]+     "ab1" [ab]     "a|b"     "a?"    "a"          *)
(* A path segment is a sequence of characters over {a, b, ".", "-", "p"}.  *)
(*                                                                         *)
(* Layer P: Splits = EVERY way to cut the characters into the elements     *)
(* (each bind matches its own language in full, literals literally).       *)
(* Layer I: the engine flamego delegates to - one anchored regexp with one *)
(* group per bind, leftmost-first backtracking with greedy quantifiers -   *)
(* as a depth-first search in preference order; its result is the split    *)
(* the handler receives.  TLC checks for every (segment, characters):      *)
(*   the engine finds a split iff one exists, and what it finds is one.    *)
(* The emitted cases also carry Splits, against which the harness' oracle  *)
(* splitter is cross-checked.                                              *)
(***************************************************************************)
EXTENDS Naturals, Sequences, FiniteSets, TLC, Json
CONSTANTS MaxLen, EmitCases,
          Dev    \* negative control "SHIFT": sub-match indexes shifted by one (values land in the next bind)

Chars == {"a", "b", ".", "-", "p"}
Lit(cs) == [ty |-> "lit", cs |-> cs, name |-> "", lang |-> ""]
Bind(n, lg) == [ty |-> "bind", cs |-> <<>>, name |-> n, lang |-> lg]
InLang(lg, w) ==
  CASE lg = "any+" -> Len(w) >= 1
    [] lg = "ab+"  -> Len(w) >= 1 /\ \A i \in 1..Len(w) : w[i] \in {"a", "b"}
    [] lg = "ab1"  -> Len(w) = 1 /\ w[1] \in {"a", "b"}
    [] lg = "a|b"  -> w \in {<<"a">>, <<"b">>}
    [] lg = "a?"   -> w \in {<<>>, <<"a">>}
    [] lg = "a"    -> w = <<"a">>
\* candidate lengths for a bind at position i, in the ENGINE's preference order
Pref(lg, maxn) ==
  CASE lg \in {"any+", "ab+"} -> [k \in 1..maxn |-> maxn + 1 - k]          \* greedy: longest first
    [] lg \in {"ab1", "a|b", "a"} -> IF maxn >= 1 THEN <<1>> ELSE <<>>
    [] lg = "a?" -> IF maxn >= 1 THEN <<1, 0>> ELSE <<0>>                    \* prefers to take the "a"
SegU == { <<Bind("a", "ab+"), Lit(<<"-">>), Bind("b", "any+")>>,          \* {a: /[ab]+/}-{b}
          <<Bind("x", "any+"), Lit(<<".">>), Bind("y", "any+")>>,         \* {x}.{y}
          <<Lit(<<"p">>), Bind("a", "a|b")>>,                             \* p{a: /a|b/}
          <<Bind("a", "ab1"), Bind("b", "a")>>,                           \* {a: /[ab]/, b: /a/}
          <<Bind("a", "a?"), Lit(<<"b">>)>>,                              \* {a: /a?/}b
          <<Lit(<<"a", ".", "b">>), Bind("x", "any+")>>,                  \* a.b{x}
          <<Bind("x", "ab+"), Bind("y", "ab+")>>,                         \* {x: /[ab]+/}{y: /[ab]+/}
          <<Bind("x", "any+"), Lit(<<"-">>), Bind("y", "any+"), Lit(<<"-">>), Bind("z", "a?")>> }

(* layer P *)
RECURSIVE Splits(_, _, _, _)
Splits(els, j, w, i) ==       \* all value tuples for els[j..] over w[i..]
  IF j > Len(els) THEN (IF i = Len(w) + 1 THEN {<<>>} ELSE {})
  ELSE IF els[j].ty = "lit"
       THEN LET n == Len(els[j].cs) IN
            IF i + n - 1 <= Len(w) /\ SubSeq(w, i, i + n - 1) = els[j].cs THEN Splits(els, j + 1, w, i + n) ELSE {}
       ELSE UNION { IF InLang(els[j].lang, SubSeq(w, i, i + n - 1))
                    THEN { <<SubSeq(w, i, i + n - 1)>> \o rest : rest \in Splits(els, j + 1, w, i + n) } ELSE {}
                  : n \in 0..(Len(w) - i + 1) }
P_Splits(els, w) == Splits(els, 1, w, 1)

(* layer I: first split in backtracking order; <<"none">> if there is none *)
None == << <<"none">> >>
RECURSIVE Engine(_, _, _, _)
RECURSIVE TryLens(_, _, _, _, _, _)
Engine(els, j, w, i) ==
  IF j > Len(els) THEN (IF i = Len(w) + 1 THEN <<>> ELSE None)
  ELSE IF els[j].ty = "lit"
       THEN LET n == Len(els[j].cs) IN
            IF i + n - 1 <= Len(w) /\ SubSeq(w, i, i + n - 1) = els[j].cs THEN Engine(els, j + 1, w, i + n) ELSE None
       ELSE TryLens(els, j, w, i, Pref(els[j].lang, Len(w) - i + 1), 1)
TryLens(els, j, w, i, pref, k) ==
  IF k > Len(pref) THEN None
  ELSE LET n == pref[k]
           v == SubSeq(w, i, i + n - 1)
           r == IF InLang(els[j].lang, v) THEN Engine(els, j + 1, w, i + n) ELSE None
       IN IF r = None THEN TryLens(els, j, w, i, pref, k + 1) ELSE <<v>> \o r
RotL(s) == IF Len(s) <= 1 THEN s ELSE SubSeq(s, 2, Len(s)) \o <<s[1]>>
I_Split(els, w) == LET r == Engine(els, 1, w, 1) IN IF "SHIFT" \in Dev /\ r # None THEN RotL(r) ELSE r

VARIABLES seg, w
vars == <<seg, w>>
Init == seg \in SegU /\ w = <<>>
Next == Len(w) < MaxLen /\ (\E c \in Chars : w' = Append(w, c)) /\ UNCHANGED seg
Spec == Init /\ [][Next]_vars
EngineSound == LET r == I_Split(seg, w) IN (r = None) = (P_Splits(seg, w) = {}) /\ (r # None => r \in P_Splits(seg, w))
RECURSIVE CatC(_, _)
CatC(cs, i) == IF i > Len(cs) THEN "" ELSE cs[i] \o CatC(cs, i + 1)
SetToSeqS(S) == LET RECURSIVE f(_)
                    f(T) == IF T = {} THEN <<>> ELSE LET x == CHOOSE x \in T : TRUE IN <<x>> \o f(T \ {x})
                IN f(S)
EmitCase == (EmitCases /\ Len(w) > 0) =>
   PrintT("CASE " \o ToJson([els |-> seg, w |-> CatC(w, 1),
                              splits |-> SetToSeqS({ [k \in 1..Len(sp) |-> CatC(sp[k], 1)] : sp \in P_Splits(seg, w) })]))
====
