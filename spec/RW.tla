---- MODULE RW ----
(***************************************************************************)
(* flamego ResponseWriter (response_writer.go) as a state machine.         *)
(*                                                                         *)
(* Layer I  (implementation shaped): Apply(o) mirrors WriteHeader / Write  *)
(*          / Flush / Before including the once-only guards (hooks and      *)
(*          status each run / are sent at most once),                      *)
(*          the implicit 200, HEAD suppression and the LIFO hooks.         *)
(* Layer P  (property C13): five clauses over ONE log of what reached the  *)
(*          underlying http.ResponseWriter (hook / hdr / body / flush      *)
(*          entries) plus the observers Status/Size/Written.               *)
(*                                                                         *)
(* The underlying writer may accept fewer bytes than offered (acc <= n),   *)
(* with or without reporting an error; it may lack Flush; it may itself be *)
(* a flamego ResponseWriter; status codes include the informational ones.  *)
(* Hijack/Push are pure delegations and are modelled as ops that append a  *)
(* "hijack"/"push" entry without touching status/size.                     *)
(***************************************************************************)
EXTENDS Naturals, Sequences, FiniteSets, TLC, Json

CONSTANTS Depth,      \* max number of operations per behaviour
          Emit,       \* print CASE lines for conformance replay
          HooksFirst  \* TRUE = code as written; FALSE = negative control (hooks after hdr)

Methods == {"GET", "HEAD", "POST"}
Codes   == {201, 404}
HookIds == {"h1", "h2"}

Op(op, code, n, acc, hook) == [op |-> op, code |-> code, n |-> n, acc |-> acc, hook |-> hook]
OpsU ==    { Op("WriteHeader", c, 0, 0, "") : c \in Codes }
      \cup { Op("Write", 0, x[1], x[2], "") : x \in {<<0, 0>>, <<3, 3>>, <<3, 1>>} }
      \cup { Op("Flush", 0, 0, 0, "") }
      \cup { Op("Before", 0, 0, 0, h) : h \in HookIds }
      \cup { Op("Push", 0, 0, 0, "") }

VARIABLES method, status, size, hooks, log, hist,
          flusher    \* whether the underlying writer implements http.Flusher (Flush commits the status either way)
vars == <<method, status, size, hooks, log, hist, flusher>>

Rev(s) == [i \in 1..Len(s) |-> s[Len(s) - i + 1]]
\* a hook entry records the Status() the hook itself observed (v)
HookEntries(hs, seen) == [i \in 1..Len(hs) |-> [k |-> "hook", v |-> seen, h |-> Rev(hs)[i]]]
Hdr(c)  == [k |-> "hdr",   v |-> c, h |-> ""]
Body(n) == [k |-> "body",  v |-> n, h |-> ""]   \* v = bytes accepted by the underlying writer
Fl      == [k |-> "flush", v |-> 0, h |-> ""]
Psh     == [k |-> "push",  v |-> 0, h |-> ""]

(* ------------------------------ layer I ------------------------------ *)
SendHeader(st, lg, c) ==
  IF st # 0 THEN [st |-> st, lg |-> lg]
  ELSE IF HooksFirst
       THEN [st |-> c, lg |-> lg \o HookEntries(hooks, 0) \o <<Hdr(c)>>]
       ELSE [st |-> c, lg |-> lg \o <<Hdr(c)>> \o HookEntries(hooks, 0)]

Apply(o) ==
  CASE o.op = "WriteHeader" -> LET r == SendHeader(status, log, o.code) IN
         /\ status' = r.st /\ log' = r.lg /\ UNCHANGED <<size, hooks>>
    [] o.op = "Write" -> LET r == SendHeader(status, log, 200) IN
         /\ status' = r.st
         /\ IF method = "HEAD" THEN log' = r.lg /\ size' = size
            ELSE log' = Append(r.lg, Body(o.acc)) /\ size' = size + o.acc
         /\ UNCHANGED hooks
    [] o.op = "Flush" -> LET r == SendHeader(status, log, 200) IN
         /\ status' = r.st /\ log' = (IF flusher THEN Append(r.lg, Fl) ELSE r.lg) /\ UNCHANGED <<size, hooks>>
    [] o.op = "Before" -> /\ hooks' = Append(hooks, o.hook) /\ UNCHANGED <<status, size, log>>
    [] o.op = "Push" -> /\ log' = Append(log, Psh) /\ UNCHANGED <<status, size, hooks>>

Init == /\ method \in Methods /\ status = 0 /\ size = 0
        /\ hooks = <<>> /\ log = <<>> /\ hist = <<>> /\ flusher \in BOOLEAN

Step(o) == /\ Len(hist) < Depth
           /\ Apply(o)
           /\ method' = method /\ flusher' = flusher
           /\ hist' = Append(hist, [o |-> o, status |-> status', size |-> size',
                                    written |-> status' # 0, log |-> log'])
Next == \E o \in OpsU : Step(o)
Spec == Init /\ [][Next]_vars

(* ------------------------------ layer P ------------------------------ *)
\* All clauses are predicates of (method, status, size, hooksAtHdr, log) so that the
\* trace specification can evaluate them on observations recorded from the real code.
HdrIdx(lg) == { i \in 1..Len(lg) : lg[i].k = "hdr" }
RECURSIVE SumBody(_, _)
SumBody(lg, i) == IF i > Len(lg) THEN 0
                  ELSE (IF lg[i].k = "body" THEN lg[i].v ELSE 0) + SumBody(lg, i + 1)

P_AtMostOneStatus(lg) == Cardinality(HdrIdx(lg)) <= 1
P_StatusFirst(lg) == \A i \in 1..Len(lg) : lg[i].k \in {"body", "flush"} => \E j \in HdrIdx(lg) : j < i
P_Truthful(st, lg) == /\ (st = 0) = (HdrIdx(lg) = {})
                      /\ \A j \in HdrIdx(lg) : lg[j].v = st
P_Size(sz, lg) == sz = SumBody(lg, 1)
P_HeadNoBody(m, lg) == m = "HEAD" => \A i \in 1..Len(lg) : lg[i].k # "body"
\* hk = the hooks that had been registered when the first status was triggered
P_Hooks(hk, lg) ==
  LET hi == { i \in 1..Len(lg) : lg[i].k = "hook" }
  IN IF HdrIdx(lg) = {} THEN hi = {}
     ELSE LET j == CHOOSE j \in HdrIdx(lg) : \A q \in HdrIdx(lg) : j <= q
              n == Len(hk)
          IN /\ Cardinality(hi) = n
             /\ j > n
             /\ SubSeq(lg, j - n, j - 1) = HookEntries(hk, 0)   \* LIFO, before hdr, saw Status() = 0
P_All(m, st, sz, hk, lg) ==
  /\ P_AtMostOneStatus(lg) /\ P_StatusFirst(lg) /\ P_Truthful(st, lg)
  /\ P_Size(sz, lg) /\ P_HeadNoBody(m, lg) /\ P_Hooks(hk, lg)

\* On the model the hooks at header time are recoverable from hist: those registered
\* by Before ops that precede the first step with a non-zero status.
RECURSIVE HooksBeforeHdr(_, _)
HooksBeforeHdr(h, i) ==
  IF i > Len(h) THEN <<>>
  ELSE IF h[i].o.op = "Before" /\ h[i].status = 0 THEN <<h[i].o.hook>> \o HooksBeforeHdr(h, i + 1)
  ELSE IF h[i].status # 0 THEN <<>>
  ELSE HooksBeforeHdr(h, i + 1)
ModelHooksAtHdr == IF status = 0 THEN hooks ELSE HooksBeforeHdr(hist, 1)

P == P_All(method, status, size, ModelHooksAtHdr, log)

\* action property: the log is append-only and Written() never goes back
AppendOnly == [][ /\ Len(log') >= Len(log) /\ SubSeq(log', 1, Len(log)) = log
                  /\ (status # 0 => status' = status) ]_vars

EmitCase == (Emit /\ Len(hist) = Depth) => PrintT("CASE " \o ToJson([method |-> method, flusher |-> flusher, steps |-> hist]))
View == <<method, status, size, hooks, log, Len(hist), flusher>>
====
