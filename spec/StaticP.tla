---- MODULE StaticP ----
(***************************************************************************)
(* C16, property layer: what the Static middleware may send.               *)
(* The served directory (created by the harness) is                        *)
(*     f        regular file, content "F"                                  *)
(*     d/       directory:  index -> "DI",  g -> "G"                       *)
(*     e/       directory without index                                    *)
(*     pfx/     directory:  f -> "PF"     (a directory named like the prefix)*)
(*     x/       directory whose "index" entry is itself a directory        *)
(* next to it, OUTSIDE the root:  secret -> "SECRET".                      *)
(* A request is (method, segs, prefix): segs = the URL path split at "/"   *)
(* after its first slash (a trailing slash gives a last empty segment),    *)
(* prefix = the configured prefix as a sequence of segments (<<>> = none). *)
(* Outcome: [kind, id, loc]  kind "file" (id = content), "redirect" (loc = *)
(* the segments of the Location, slash-terminated) or "silent" (nothing    *)
(* written, the next handler runs).                                        *)
(***************************************************************************)
EXTENDS Naturals, Sequences, FiniteSets, TLC
Silent == [kind |-> "silent", id |-> "", loc |-> <<>>]
File(id) == [kind |-> "file", id |-> id, loc |-> <<>>]
Redirect(loc) == [kind |-> "redirect", id |-> "", loc |-> loc]

\* the tree: resolved path (sequence of names below the root) -> "dir" | content id | "none"
Lookup(p) == CASE p = <<>> -> "dir"
               [] p = <<"f">> -> "F"
               [] p = <<"d">> -> "dir" [] p = <<"d", "index">> -> "DI" [] p = <<"d", "g">> -> "G"
               [] p = <<"e">> -> "dir"
               [] p = <<"pfx">> -> "dir" [] p = <<"pfx", "f">> -> "PF"
               [] p = <<"x">> -> "dir" [] p = <<"x", "index">> -> "dir"      \* the index entry of x/ is a DIRECTORY
               [] OTHER -> "none"
\* path.Clean of "/" ++ segs: drop "" and ".", ".." pops but never leaves the root
RECURSIVE Resolve(_, _, _)
Resolve(segs, i, acc) ==
  IF i > Len(segs) THEN acc
  ELSE IF segs[i] \in {"", "."} THEN Resolve(segs, i + 1, acc)
  ELSE IF segs[i] = ".." THEN Resolve(segs, i + 1, IF acc = <<>> THEN acc ELSE SubSeq(acc, 1, Len(acc) - 1))
  ELSE Resolve(segs, i + 1, Append(acc, segs[i]))
IsPrefixSeq(a, b) == Len(a) <= Len(b) /\ SubSeq(b, 1, Len(a)) = a
Slashed(segs) == Len(segs) = 0 \/ segs[Len(segs)] = ""          \* the URL path ends with "/"
\* (a path that cleans to "/" itself is slash-terminated by nature: no redirect for it)

P_Static(method, segs, prefix) ==
  IF method \notin {"GET", "HEAD"} THEN Silent
  ELSE IF ~IsPrefixSeq(prefix, segs) THEN Silent                \* under the prefix, at a segment boundary
  ELSE LET rest == SubSeq(segs, Len(prefix) + 1, Len(segs))
           tgt == Resolve(rest, 1, <<>>)
           what == Lookup(tgt)
       IN IF what = "none" THEN Silent
          ELSE IF what # "dir" THEN File(what)
          ELSE IF ~Slashed(segs) /\ Resolve(segs, 1, <<>>) # <<>> THEN Redirect(Resolve(segs, 1, <<>>))
          ELSE LET ix == Lookup(Append(tgt, "index")) IN
               IF ix \in {"none", "dir"} THEN Silent ELSE File(ix)
====
