---- MODULE ConcurrentTrace ----
(***************************************************************************)
(* Trace validation for C05: every response of the concurrent runs         *)
(*   resp{req, out, panicked}                                              *)
(* must be the response the same request gets when served alone.           *)
(***************************************************************************)
EXTENDS ConcurrentP, TraceBase
CONSTANT Dev
tvars == <<l>>
TInit == LInit
TReset == IsEv("reset")
TResp == /\ IsEv("resp")
         /\ LET e == Tr[l] IN Verdict(IF ~e.panicked /\ e.out = Serial(e.req) THEN "ok" ELSE "bad")
TNext == TReset \/ TResp
TSpec == TInit /\ [][TNext]_tvars
====
