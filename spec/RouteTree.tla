---- MODULE RouteTree ----
(***************************************************************************)
(* flamego routing core: internal/route/{tree,leaf}.go + router.go.        *)
(*                                                                         *)
(* Vocabulary                                                              *)
(*   segment  [k, t, opt, binds, cap, els, bad]                              *)
(*            k    "S" static | "R" regex | "P" placeholder | "A" match-all*)
(*            t    canonical text of the segment without "/" and "?"       *)
(*            opt  optional marker                                         *)
(*            binds sequence of bind names; cap capture limit (0 = none)   *)
(*            els  elements for URL building: [ty, v] ty "lit" | "bind"    *)
(*                 (a bind-parameter list contributes one "bind" element   *)
(*                 per parameter, flagged first/rest by field g)           *)
(*   route    [segs, gram]  gram = text is in the grammar; seg.bad = an    *)
(*            expression of that segment does not compile                  *)
(*   history  H: sequence of registrations [m, r, ok, hdr, call]           *)
(*   request  method m, path p = sequence of segment strings (leading      *)
(*            slashes trimmed, split at "/"), headers                      *)
(*   oracle   orc = [adm, splits]: admission facts for regex segments      *)
(*            adm  set of <<segment text, path segment>>                   *)
(*            splits set of <<segment text, path segment, values>>         *)
(*            In model checking they are computed from the finite          *)
(*            universe; in trace validation they are logged facts computed *)
(*            by an independent procedure (per-bind full match).           *)
(*                                                                         *)
(* Layer P (properties C01 C02 C08 C09 C10 C12) is defined on the HISTORY  *)
(* of accepted registrations only.  Layer I is the explicit tree with the  *)
(* insertion and depth-first search of the code.                           *)
(***************************************************************************)
EXTENDS Naturals, Sequences, FiniteSets, TLC

Rank(k) == CASE k = "S" -> 1 [] k = "R" -> 2 [] k = "P" -> 3 [] k = "A" -> 4
Methods9 == {"GET", "POST", "PUT", "DELETE", "PATCH", "OPTIONS", "HEAD", "CONNECT", "TRACE"}

Front(s) == SubSeq(s, 1, Len(s) - 1)
Last(s) == s[Len(s)]
Min(S) == CHOOSE x \in S : \A y \in S : x <= y
Range(f) == { f[x] : x \in DOMAIN f }
RECURSIVE JoinStr(_, _, _, _)
JoinStr(p, i, j, sep) == IF i > j THEN "" ELSE IF i = j THEN p[i] ELSE p[i] \o sep \o JoinStr(p, i + 1, j, sep)

EmptySeg == [k |-> "S", t |-> "", opt |-> FALSE, binds |-> <<>>, cap |-> 0, els |-> <<>>, bad |-> FALSE, grp |-> FALSE]

SegText(s) == "/" \o (IF s.opt THEN "?" ELSE "") \o s.t
RECURSIVE RouteTextFrom(_, _)
RouteTextFrom(segs, i) == IF i > Len(segs) THEN "" ELSE SegText(segs[i]) \o RouteTextFrom(segs, i + 1)
RouteText(r) == RouteTextFrom(r.segs, 1)
Texts(segs, n) == [j \in 1..n |-> segs[j].t]

IsOptional(r) == Len(r.segs) > 0 /\ Last(r.segs).opt
\* the segments matched by the short form of an optional route
ShortSegs(r) == IF Len(r.segs) = 1 THEN <<EmptySeg>> ELSE Front(r.segs)
LongSegs(r) == r.segs

(* ======================= layer P : admission ========================= *)
Admits(sg, ps, orc) == CASE sg.k = "S" -> sg.t = ps
                         [] sg.k = "P" -> TRUE
                         [] sg.k = "R" -> <<sg.t, ps>> \in orc.adm
                         [] sg.k = "A" -> TRUE

\* All alignments of the segment list sg (last one is the leaf) with the path p
\* from index i, as sequences of counts of path segments consumed per segment.
RECURSIVE Aligns(_, _, _, _, _)
Aligns(sg, j, p, i, orc) ==
  IF j = Len(sg)
  THEN IF i > Len(p) THEN {}
       ELSE IF sg[j].k = "A"
            THEN IF sg[j].cap = 0 \/ sg[j].cap >= Len(p) - i + 1 THEN {<<Len(p) - i + 1>>} ELSE {}
            ELSE IF i = Len(p) /\ Admits(sg[j], p[i], orc) THEN {<<1>>} ELSE {}
  ELSE IF i >= Len(p) THEN {}
       ELSE IF sg[j].k = "A"
            THEN UNION { { <<c>> \o rest : rest \in Aligns(sg, j + 1, p, i + c, orc) } :
                         c \in { c \in 1..(Len(p) - i) : sg[j].cap = 0 \/ c <= sg[j].cap } }
            ELSE IF Admits(sg[j], p[i], orc)
                 THEN { <<1>> \o rest : rest \in Aligns(sg, j + 1, p, i + 1, orc) } ELSE {}

(* ======================= layer P : header gate ======================= *)
\* hdr: sequence of [name, expr]; req headers: function name -> value ("" = absent/empty)
\* horc: set of <<expr, value>> for which the expression matches the value
HdrVal(rh, n) == IF n \in DOMAIN rh THEN rh[n] ELSE ""
Eligible(hdr, rh, horc) ==
  \A i \in 1..Len(hdr) : /\ HdrVal(rh, hdr[i].name) # ""
                         /\ <<hdr[i].expr, HdrVal(rh, hdr[i].name)>> \in horc

(* ======================= layer P : priority ========================== *)
Acc(H, m) == { i \in 1..Len(H) : H[i].ok /\ H[i].m = m }
\* registration index that first introduced the alternative "prefix of j segment texts
\* continuing with further segments" (subtrees are shared by text).  G = extra contributors:
\* {} in the property; the ghosts of failed registrations under deviation D11.
PrefixLen(H, q, G) == IF q \in DOMAIN G THEN G[q] ELSE Len(H[q].r.segs) - 1
Born(H, m, tx, G) ==
  Min({ q \in Acc(H, m) \cup DOMAIN G : PrefixLen(H, q, G) >= Len(tx) /\ Texts(H[q].r.segs, Len(tx)) = tx })
NoGhosts == <<>>
\* one 4-tuple per segment of the form: <<class, rank, birth, captured>>
KeyG(H, m, i, sg, c, G) ==
  [j \in 1..Len(sg) |->
     IF j < Len(sg) THEN <<0, Rank(sg[j].k), Born(H, m, Texts(sg, j), G), c[j]>>
     ELSE IF sg[j].k = "A" /\ c[j] > 1 THEN <<1, 0, 0, 0>>     \* final match-all as the fall-back
     ELSE <<0, Rank(sg[j].k), i, 1>>]
Key(H, m, i, sg, c) == KeyG(H, m, i, sg, c, NoGhosts)
RECURSIVE TupLess(_, _, _)
TupLess(a, b, j) == IF j > Len(a) THEN FALSE
                    ELSE IF a[j] = b[j] THEN TupLess(a, b, j + 1) ELSE a[j] < b[j]
RECURSIVE KeyLess(_, _, _)
KeyLess(a, b, j) == IF j > Len(a) \/ j > Len(b) THEN FALSE
                    ELSE IF a[j] = b[j] THEN KeyLess(a, b, j + 1) ELSE TupLess(a[j], b[j], 1)

\* equal keys only arise for the two forms of the one-segment route "/?" (both match "/"): short form first
\* (a last tie-break by registration index keeps the choice total even when the code under test accepted a
\* registration that layer P calls ill-formed - that acceptance has already been judged on its own)
Before(kw, w, kv, v) == \/ KeyLess(kw, kv, 1)
                        \/ (kw = kv /\ w.short /\ ~v.short)
                        \/ (kw = kv /\ w.short = v.short /\ w.reg < v.reg)
\* witnesses: [reg, short, c]
WitnessesOf(H, i, p, orc) ==
  LET r == H[i].r IN
       { [reg |-> i, short |-> FALSE, c |-> c] : c \in Aligns(LongSegs(r), 1, p, 1, orc) }
  \cup (IF IsOptional(r)
        THEN { [reg |-> i, short |-> TRUE, c |-> c] : c \in Aligns(ShortSegs(r), 1, p, 1, orc) }
        ELSE {})
FormSegs(H, w) == IF w.short THEN ShortSegs(H[w.reg].r) ELSE LongSegs(H[w.reg].r)
Witnesses(H, m, p, rh, orc, horc) ==
  UNION { IF Eligible(H[i].hdr, rh, horc) THEN WitnessesOf(H, i, p, orc) ELSE {} : i \in Acc(H, m) }
NoWitness == [reg |-> 0, short |-> FALSE, c |-> <<>>]
P_Winner(H, m, p, rh, orc, horc) ==
  LET W == Witnesses(H, m, p, rh, orc, horc)
      K(w) == Key(H, m, w.reg, FormSegs(H, w), w.c)
  IN IF W = {} THEN NoWitness
     ELSE CHOOSE w \in W : \A v \in W : v = w \/ Before(K(w), w, K(v), v)

(* ======================= layer P : parameters ======================== *)
\* dec[i] = path segment i percent-decoded (raw if undecodable), decok[i] = decodable
DecSpan(p, dec, decok, a, b) == IF \A q \in a..b : decok[q] THEN JoinStr(dec, a, b, "/") ELSE JoinStr(p, a, b, "/")
RECURSIVE SegStart(_, _)
SegStart(c, j) == IF j = 1 THEN 1 ELSE SegStart(c, j - 1) + c[j - 1]
HasKey(f, k) == k \in DOMAIN f
\* params: function bind name -> delivered value. Only the winner's binds are constrained.
P_SegParamsOK(sg, p, dec, decok, a, n, params, orc) ==
  CASE sg.k = "S" -> TRUE
    [] sg.k = "P" -> HasKey(params, sg.binds[1]) /\ params[sg.binds[1]] = DecSpan(p, dec, decok, a, a)
    [] sg.k = "A" -> HasKey(params, sg.binds[1]) /\ params[sg.binds[1]] = DecSpan(p, dec, decok, a, a + n - 1)
    [] sg.k = "R" -> \E sp \in orc.splits :
                        /\ sp[1] = sg.t /\ sp[2] = p[a] /\ Len(sp[3]) = Len(sg.binds)
                        /\ \A b \in 1..Len(sg.binds) : HasKey(params, sg.binds[b]) /\ params[sg.binds[b]] = sp[3][b]
RECURSIVE BindSet(_, _)
BindSet(segs, i) == IF i > Len(segs) THEN {} ELSE { segs[i].binds[b] : b \in 1..Len(segs[i].binds) } \cup BindSet(segs, i + 1)
P_ParamsOK(H, w, p, dec, decok, params, orc) ==
  LET sg == FormSegs(H, w) IN
  /\ \A j \in 1..Len(sg) : P_SegParamsOK(sg[j], p, dec, decok, SegStart(w.c, j), w.c[j], params, orc)
  /\ HasKey(params, "route") /\ params["route"] = RouteText(H[w.reg].r)
  \* nothing but the binds of this route and the reserved "route": in particular nothing another request left behind
  /\ \A k \in DOMAIN params : k = "route" \/ k \in BindSet(H[w.reg].r.segs, 1)

(* ======================= layer P : URL building ====================== *)
\* vals: function name -> value. Every bind element is replaced by its value if supplied.
ElText(e, vals) == IF e.ty = "lit" THEN e.v
                   ELSE IF e.v \in DOMAIN vals THEN vals[e.v] ELSE "{" \o e.v \o "}"
RECURSIVE ElsText(_, _, _)
ElsText(els, i, vals) == IF i > Len(els) THEN "" ELSE ElText(els[i], vals) \o ElsText(els, i + 1, vals)
RECURSIVE BuildFrom(_, _, _, _)
BuildFrom(segs, i, vals, withOpt) ==
  IF i > Len(segs) \/ (segs[i].opt /\ ~withOpt) THEN ""
  ELSE "/" \o ElsText(segs[i].els, 1, vals) \o BuildFrom(segs, i + 1, vals, withOpt)
P_Build(r, vals, withOpt) == BuildFrom(r.segs, 1, vals, withOpt)

(* ======================= layer P : well-formedness =================== *)
RECURSIVE AllBinds(_, _)
AllBinds(segs, i) == IF i > Len(segs) THEN <<>> ELSE segs[i].binds \o AllBinds(segs, i + 1)
Distinct(s) == \A a, b \in 1..Len(s) : a # b => s[a] # s[b]
\* leaf forms: <<prefix texts, leaf text with marker>>
LeafForms(r) ==
  LET n == Len(r.segs) IN
     { <<Texts(r.segs, n - 1), SegText(r.segs[n])>> }
  \cup (IF IsOptional(r)
        THEN IF n = 1 THEN { <<<<>>, "/">> }
             ELSE { <<Texts(r.segs, n - 2), "/" \o r.segs[n - 1].t>> }
        ELSE {})
\* match-all "positions": <<prefix texts, "sub"|"leaf", text>>
AllPositions(r) ==
  LET n == Len(r.segs) IN
     { <<Texts(r.segs, j - 1), "sub", r.segs[j].t>> : j \in { j \in 1..(n - 1) : r.segs[j].k = "A" } }
  \cup (IF r.segs[n].k = "A" THEN { <<Texts(r.segs, n - 1), "leaf", r.segs[n].t>> } ELSE {})
  \cup (IF IsOptional(r) /\ n >= 2 /\ r.segs[n - 1].k = "A"
        THEN { <<Texts(r.segs, n - 2), "leaf", r.segs[n - 1].t>> } ELSE {})
SelfWellFormed(r) ==
  LET n == Len(r.segs) IN
  /\ r.gram /\ n >= 1 /\ \A j \in 1..n : ~r.segs[j].bad
  /\ \A j \in 1..(n - 1) : ~r.segs[j].opt /\ ~(r.segs[j].k = "S" /\ r.segs[j].t = "")
  /\ Distinct(AllBinds(r.segs, 1))
  /\ Cardinality({ j \in 1..(n - 1) : r.segs[j].k = "A" }) <= 1
P_WellFormed(H, m, r) ==
  /\ m \in Methods9
  /\ SelfWellFormed(r)
  /\ \A i \in Acc(H, m) :
        /\ LeafForms(H[i].r) \cap LeafForms(r) = {}
        /\ \A a \in AllPositions(H[i].r), b \in AllPositions(r) :
              (a[1] = b[1] /\ a[2] = b[2]) => (a[2] = "sub" /\ a[3] = b[3])

(* ============================ layer I ================================ *)
\* The explicit tree.  st = [nodes, leaves]; node = [par, seg, subs, lvs]; leaf = [par, seg, reg, short, hdr]
RootNode == [par |-> 0, seg |-> EmptySeg, subs |-> <<>>, lvs |-> <<>>]
EmptyTree == [nodes |-> <<RootNode>>, leaves |-> <<>>]

\* first position whose rank is strictly greater (stable FIFO inside a rank): addLeaf / addSubtree loops
InsPos(s, rk, rankAt(_), lifo) ==
  LET cand == { i \in 1..Len(s) : IF lifo THEN rk <= rankAt(s[i]) ELSE rk < rankAt(s[i]) }
  IN IF cand = {} THEN Len(s) + 1 ELSE Min(cand)
InsertAt(s, i, x) == SubSeq(s, 1, i - 1) \o <<x>> \o SubSeq(s, i, Len(s))

RECURSIVE AncBinds(_, _)
AncBinds(ns, n) == IF n = 0 THEN {} ELSE Range(ns[n].seg.binds) \cup AncBinds(ns, ns[n].par)
RECURSIVE AncHasAll(_, _)
AncHasAll(ns, n) == IF n = 0 THEN FALSE ELSE ns[n].seg.k = "A" \/ AncHasAll(ns, ns[n].par)
HasAllSub(ns, n) == Len(ns[n].subs) > 0 /\ ns[Last(ns[n].subs)].seg.k = "A"
HasAllLeaf(ns, ls, n) == Len(ns[n].lvs) > 0 /\ ls[Last(ns[n].lvs)].seg.k = "A"
Fail(st) == [nodes |-> st.nodes, leaves |-> st.leaves, ok |-> FALSE, leaf |-> 0]

\* addLeaf(t, r, s, h)
RECURSIVE AddLeaf(_, _, _, _, _, _)
AddLeaf(st, n, seg, reg, short, lifo) ==
  LET ns == st.nodes
      ls == st.leaves
      lv == ns[n].lvs
  IN IF \E i \in 1..Len(lv) : SegText(ls[lv[i]].seg) = SegText(seg) THEN Fail(st)      \* duplicated route
     ELSE IF seg.bad THEN Fail(st)
     ELSE IF ~(seg.k = "S") /\ (Range(seg.binds) \cap AncBinds(ns, n) # {} \/ ~Distinct(seg.binds)) THEN Fail(st)
     ELSE IF seg.k = "A" /\ HasAllLeaf(ns, ls, n) THEN Fail(st)
     ELSE
       LET st1 == IF seg.opt
                  THEN IF ns[n].par # 0
                       THEN AddLeaf(st, ns[n].par, [ns[n].seg EXCEPT !.opt = FALSE], reg, TRUE, lifo)
                       ELSE AddLeaf(st, n, EmptySeg, reg, TRUE, lifo)
                  ELSE [nodes |-> ns, leaves |-> ls, ok |-> TRUE, leaf |-> 0]
       IN IF ~st1.ok THEN Fail(st)
          ELSE LET ls1 == st1.leaves
                   ns1 == st1.nodes
                   id == Len(ls1) + 1
                   lv1 == ns1[n].lvs
                   pos == InsPos(lv1, Rank(seg.k), LAMBDA x : Rank(ls1[x].seg.k), lifo)
               IN [nodes |-> [ns1 EXCEPT ![n].lvs = InsertAt(lv1, pos, id)],
                   leaves |-> Append(ls1, [par |-> n, seg |-> seg, reg |-> reg, short |-> short, hdr |-> <<>>]),
                   ok |-> TRUE, leaf |-> id]

\* addNextSegment / addSubtree.  A failed registration keeps the subtrees it created (as the code does).
RECURSIVE AddNext(_, _, _, _, _, _)
AddNext(st, n, segs, next, reg, lifo) ==
  IF Len(segs) <= next
  THEN LET r == AddLeaf(st, n, segs[next], reg, FALSE, lifo)
       IN IF r.ok THEN r ELSE Fail(st)
  ELSE
    LET seg == segs[next]
        ns == st.nodes
        sb == ns[n].subs
        ex == { i \in 1..Len(sb) : ns[sb[i]].seg.t = seg.t }
    IN IF seg.opt THEN Fail(st)                                   \* only the last segment can be optional
       ELSE IF ex # {} THEN AddNext(st, sb[CHOOSE i \in ex : TRUE], segs, next + 1, reg, lifo)
       ELSE IF seg.k = "S" /\ seg.t = "" THEN Fail(st)              \* empty segment
       ELSE IF seg.bad THEN Fail(st)                                \* expression does not compile / degenerate shape
       ELSE IF seg.k # "S" /\ (Range(seg.binds) \cap AncBinds(ns, n) # {} \/ ~Distinct(seg.binds)) THEN Fail(st)
       ELSE IF seg.k = "A" /\ AncHasAll(ns, n) THEN Fail(st)
       ELSE IF seg.k = "A" /\ HasAllSub(ns, n) THEN Fail(st)
       ELSE LET id == Len(ns) + 1
                pos == InsPos(sb, Rank(seg.k), LAMBDA x : Rank(ns[x].seg.k), lifo)
                ns1 == Append([ns EXCEPT ![n].subs = InsertAt(sb, pos, id)],
                              [par |-> n, seg |-> seg, subs |-> <<>>, lvs |-> <<>>])
            IN AddNext([nodes |-> ns1, leaves |-> st.leaves], id, segs, next + 1, reg, lifo)

I_AddRoute(st, r, reg, lifo) ==
  IF ~r.gram \/ Len(r.segs) = 0 THEN Fail(st)
  ELSE AddNext(st, 1, r.segs, 1, reg, lifo)

\* ---- matching: matchNextSegment / matchSubtree / matchLeaf / matchAll ----
\* okL = set of leaf ids whose header gate passes.  Returns <<leaf id, counts>> or <<0, <<>>>>.
Miss == <<0, <<>>>>
RECURSIVE MatchNext(_, _, _, _, _, _, _)
RECURSIVE MatchAllTree(_, _, _, _, _, _, _, _)
MatchNext(ns, ls, n, p, i, orc, okL) ==
  IF i = Len(p)
  THEN LET lv == ns[n].lvs
           ok == { j \in 1..Len(lv) : Admits(ls[lv[j]].seg, p[i], orc) /\ lv[j] \in okL }
       IN IF ok = {} THEN Miss ELSE <<lv[Min(ok)], <<1>>>>
  ELSE
    LET sb == ns[n].subs
        try(j) == IF ns[sb[j]].seg.k = "A"
                  THEN MatchAllTree(ns, ls, sb[j], p, i + 1, 1, orc, okL)
                  ELSE IF Admits(ns[sb[j]].seg, p[i], orc)
                       THEN LET r == MatchNext(ns, ls, sb[j], p, i + 1, orc, okL)
                            IN IF r[1] = 0 THEN Miss ELSE <<r[1], <<1>> \o r[2]>>
                       ELSE Miss
        hits == { j \in 1..Len(sb) : try(j)[1] # 0 }
    IN IF hits # {} THEN try(Min(hits))
       ELSE LET lv == ns[n].lvs IN              \* fall back to the match-all leaf
            IF Len(lv) > 0 /\ ls[Last(lv)].seg.k = "A"
               /\ (ls[Last(lv)].seg.cap = 0 \/ ls[Last(lv)].seg.cap >= Len(p) - i + 1)
               /\ Last(lv) \in okL
            THEN <<Last(lv), <<Len(p) - i + 1>>>> ELSE Miss
\* match-all subtree n has captured cnt segments, the next one starts at nx
MatchAllTree(ns, ls, n, p, nx, cnt, orc, okL) ==
  IF ns[n].seg.cap > 0 /\ ns[n].seg.cap < cnt THEN Miss
  ELSE LET r == MatchNext(ns, ls, n, p, nx, orc, okL)
       IN IF r[1] # 0 THEN <<r[1], <<cnt>> \o r[2]>>
          ELSE IF nx = Len(p) THEN Miss
          ELSE MatchAllTree(ns, ls, n, p, nx + 1, cnt + 1, orc, okL)

I_Match(st, p, orc, okL) == MatchNext(st.nodes, st.leaves, 1, p, 1, orc, okL)
\* Static(): leaf static and every ancestor static; with the D7 repair an optional leaf is not static
RECURSIVE AncStatic(_, _)
AncStatic(ns, n) == IF n <= 1 THEN TRUE ELSE ns[n].seg.k = "S" /\ AncStatic(ns, ns[n].par)
I_LeafStatic(st, l) == st.leaves[l].seg.k = "S" /\ AncStatic(st.nodes, st.leaves[l].par)
====
