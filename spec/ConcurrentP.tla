---- MODULE ConcurrentP ----
(***************************************************************************)
(* C05, property layer: the response a request must get when served alone. *)
(* A request is [id, route, val]; route names one of the kinds the harness *)
(* registers (static shortcut, placeholder, optional, regex, match-all,    *)
(* header-gated), val is the value carried in the path.  The handlers of   *)
(* the harness echo: which route handler ran (h), the bind value it saw    *)
(* (val), the request-scoped tag injected into it (tag - mapped by an      *)
(* earlier middleware of the SAME request), the URL it built for the named *)
(* route with its own value (url) and the id written through its own       *)
(* response writer (wid).                                                  *)
(***************************************************************************)
EXTENDS Naturals, Sequences, FiniteSets, TLC
\* "render": the handler answers through the Render service that the Renderer middleware mapped for THIS request
\* "panic": the handler panics with a value naming its request; the Recovery middleware answers with a page that carries it
\* "lone" / "deep": routes whose static segments nothing has touched since registration (cold lazily rendered strings)
RouteKinds == {"static", "param", "opt", "regex", "all", "hdr", "render", "panic", "lone", "deep", "ret", "body", "unk", "file"}   \* "file": a static file with its ETag (Static middleware);  "unk": a method token that is not registrable - answered by the not-found chain
HasVal(k) == k \in {"param", "opt", "regex", "all", "render", "panic", "lone", "deep", "ret", "body"}   \* "ret": the handler RETURNS its body (shared ReturnHandler service)
Serial(rq) == [h |-> rq.route, val |-> IF HasVal(rq.route) THEN rq.val ELSE "", tag |-> rq.id,
               url |-> "/p/" \o rq.val, wid |-> rq.id,
               scr |-> rq.id,
               log |-> 20]        \* 10 x (lines of this request in its own request-scoped logger: Started, Completed) + lines of others     \* the scratch value its own middleware left in the Params map of the request
====
