---- MODULE AccessorsTrace ----
(***************************************************************************)
(* Trace validation for C18:                                               *)
(*  access{fn, class, hasdef, def, conv, zero, out, panicked}              *)
(*  cookie{value, got, panicked}    SetCookie -> Set-Cookie -> Cookie ->   *)
(*                                  Cookie(): byte for byte                *)
(***************************************************************************)
EXTENDS AccessorsP, TraceBase
CONSTANT Dev
tvars == <<l>>
TInit == LInit
TReset == IsEv("reset")
TAccess == /\ IsEv("access")
           /\ LET e == Tr[l] IN
              Verdict(IF ~e.panicked /\ e.out \in P_Access(e.fn, e.class, e.hasdef, e.def, e.conv, e.zero) THEN "ok" ELSE "bad")
TCookie == /\ IsEv("cookie")
           /\ LET e == Tr[l] IN Verdict(IF ~e.panicked /\ e.got = e.value THEN "ok" ELSE "bad")
TNext == TReset \/ TAccess \/ TCookie
TSpec == TInit /\ [][TNext]_tvars
====
