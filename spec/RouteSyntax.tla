---- MODULE RouteSyntax ----
(***************************************************************************)
(* C06, layer I: the parser as built - participle's stateful lexer         *)
(* (parser.go: mode stack Root/Segment/Bind/BindParameter/RegexValue, the  *)
(* first rule of the current mode that matches, greedy inside a rule,      *)
(* push/pop actions) followed by the token-level grammar of the struct     *)
(* tags in definition.go - against layer P (RouteSyntaxP: the documented   *)
(* character grammar).  TLC enumerates every class string up to MaxLen     *)
(* whose lexing has not yet failed (prefix-closed pruning).                *)
(***************************************************************************)
EXTENDS RouteSyntaxP, Json
CONSTANTS MaxLen, EmitLen, EmitCases,
          Dev   \* "D12": judge against the lexer's character classes instead of the documented ones

Alphabet == {"/", "?", "{", "}", ":", ",", " ", "i", "o", "$", "r", "w", "x"}
IdentCh(c) == c \in IdentLex
RegexCh(c) == c \in RegexLex
WsCh(c) == c \in {" ", "w"}

RECURSIVE RunEndS(_, _, _)
RunEndS(s, i, P) == IF i <= Len(s) /\ s[i] \in P THEN RunEndS(s, i + 1, P) ELSE i
Tok(t, s, i, j) == [t |-> t, v |-> SubSeq(s, i, j - 1)]
Push(st, m) == Append(st, m)
PopS(st) == SubSeq(st, 1, Len(st) - 1)

RECURSIVE Lex(_, _, _, _)
Lex(s, i, st, toks) ==
  IF i > Len(s) THEN [ok |-> TRUE, toks |-> toks]
  ELSE LET m == st[Len(st)]
           c == s[i]
           common == m \in {"Seg", "Bind", "BP"}
           fail == [ok |-> FALSE, toks |-> toks]
       IN IF common /\ IdentCh(c)
          THEN LET j == RunEndS(s, i, IdentLex) IN Lex(s, j, st, Append(toks, Tok("Ident", s, i, j)))
          ELSE IF common /\ WsCh(c)
          THEN Lex(s, i + 1, st, Append(toks, Tok("Ws", s, i, i + 1)))
          ELSE CASE m = "Root" ->
                      IF c = "/" THEN Lex(s, i + 1, Push(st, "Seg"), Append(toks, Tok("Segment", s, i, i + 1))) ELSE fail
                 [] m = "Seg" ->
                      IF c = "?" THEN Lex(s, i + 1, st, Append(toks, Tok("Optional", s, i, i + 1)))
                      ELSE IF c = "{" THEN Lex(s, i + 1, Push(st, "Bind"), Append(toks, Tok("Bind", s, i, i + 1)))
                      ELSE IF c = "/" THEN Lex(s, i + 1, Push(st, "Seg"), Append(toks, Tok("Segment", s, i, i + 1)))
                      ELSE fail
                 [] m = "Bind" ->
                      IF c = ":" THEN Lex(s, i + 1, Push(st, "BP"), Append(toks, Tok("BindParameter", s, i, i + 1)))
                      ELSE IF c = "{" THEN Lex(s, i + 1, Push(st, "Bind"), Append(toks, Tok("Bind", s, i, i + 1)))
                      ELSE IF c = "}" THEN Lex(s, i + 1, PopS(st), Append(toks, Tok("BindEnd", s, i, i + 1)))
                      ELSE IF c = "/" THEN Lex(s, i + 1, Push(st, "Seg"), Append(toks, Tok("Segment", s, i, i + 1)))
                      ELSE fail
                 [] m = "BP" ->
                      IF c = "/" THEN Lex(s, i + 1, Push(st, "RV"), Append(toks, Tok("BPRegexValue", s, i, i + 1)))
                      ELSE IF c \in {"}", ","} THEN Lex(s, i + 1, PopS(st), Append(toks, Tok("BPEnd", s, i, i + 1)))
                      ELSE fail
                 [] m = "RV" ->
                      IF RegexCh(c) THEN LET j == RunEndS(s, i, RegexLex) IN Lex(s, j, st, Append(toks, Tok("Regex", s, i, j)))
                      ELSE IF c = "/" THEN Lex(s, i + 1, PopS(st), Append(toks, Tok("RegexEnd", s, i, i + 1)))
                      ELSE fail
LexOf(s) == Lex(s, 1, <<"Root">>, <<>>)

\* token grammar (struct tags): sets of end positions over the token list
IsV(ts, i, v) == i <= Len(ts) /\ ts[i].v = <<v>>
IsT(ts, i, t) == i <= Len(ts) /\ ts[i].t = t
RECURSIVE SkipBlanks(_, _)
SkipBlanks(ts, i) == IF IsV(ts, i, " ") THEN SkipBlanks(ts, i + 1) ELSE i
BPVEnds(ts, i) == (IF IsT(ts, i, "Ident") THEN {i + 1} ELSE {})
                  \cup (IF IsV(ts, i, "/") /\ IsT(ts, i + 1, "Regex") /\ IsV(ts, i + 2, "/") THEN {i + 3} ELSE {})
BPEnds(ts, i) == IF IsT(ts, i, "Ident") /\ IsV(ts, i + 1, ":") THEN BPVEnds(ts, SkipBlanks(ts, i + 2)) ELSE {}
RECURSIVE BPListEnds(_, _)
BPListEnds(ts, i) == LET first == BPEnds(ts, i)
                     IN first \cup UNION { IF IsV(ts, j, ",") THEN BPListEnds(ts, SkipBlanks(ts, j + 1)) ELSE {} : j \in first }
RECURSIVE BPSEnds(_, _, _)
BPSEnds(ts, i, fuel) == LET one == BPListEnds(ts, i)
                        IN one \cup (IF fuel = 0 THEN {} ELSE UNION { BPSEnds(ts, j, fuel - 1) : j \in one })
SEEnds(ts, i) == (IF IsT(ts, i, "Ident") THEN {i + 1} ELSE {})
                 \cup (IF IsV(ts, i, "{") /\ IsT(ts, i + 1, "Ident") /\ IsV(ts, i + 2, "}") THEN {i + 3} ELSE {})
                 \cup (IF IsV(ts, i, "{") THEN { j + 1 : j \in { k \in BPSEnds(ts, i + 1, Len(ts)) : IsV(ts, k, "}") } } ELSE {})
RECURSIVE SEStarEnds(_, _)
SEStarEnds(ts, i) == {i} \cup UNION { SEStarEnds(ts, j) : j \in SEEnds(ts, i) }
SegEnds(ts, i) == IF IsV(ts, i, "/")
                  THEN SEStarEnds(ts, i + 1) \cup (IF IsV(ts, i + 1, "?") THEN SEStarEnds(ts, i + 2) ELSE {})
                  ELSE {}
RECURSIVE RouteEnds(_, _)
RouteEnds(ts, i) == LET one == SegEnds(ts, i) IN one \cup UNION { RouteEnds(ts, j) : j \in one }
TokAccept(ts) == (Len(ts) + 1) \in RouteEnds(ts, 1)
Accept(s) == LET lx == LexOf(s) IN lx.ok /\ TokAccept(lx.toks)

VARIABLE inp
Init == inp = <<>>
Next == /\ Len(inp) < MaxLen
        /\ LexOf(inp).ok
        /\ \E c \in Alphabet : inp' = Append(inp, c)
Spec == Init /\ [][Next]_inp
P_Accept(s) == IF "D12" \in Dev THEN DerivesLex(s) ELSE DerivesDoc(s)
AcceptIffDerives == Accept(inp) = P_Accept(inp)
\* canonical rendering of an accepted string is a fix-point: it derives again and renders to itself
CanonFixpoint == Accept(inp) =>
   LET c == P_Canon(inp, inp) IN Accept(c) /\ P_Canon(c, c) = c
                                 /\ P_Tokens(c, c, FlagsOf(c, IdentLex)) = P_Tokens(inp, inp, FlagsOf(inp, IdentLex))
EmitCase == (EmitCases /\ Len(inp) > 0 /\ Len(inp) <= EmitLen) =>
               PrintT("CASE " \o ToJson([cs |-> inp, acc |-> P_Accept(inp)]))
====
