---- MODULE InjectTrace ----
(***************************************************************************)
(* Trace validation for C04.  Events recorded from real inject.Injector    *)
(* chains and from the Flame -> request-context chain:                     *)
(*  reset{parent}  reg{op,s,k,ct,id}  endreq{s}                            *)
(*  invoke{s, sig, fast, err, errtype, calls, args, rets, bodyrets}        *)
(*  apply{s, fields, err, errtype, got, untouched}                         *)
(*  retshape{form, declared, got, calls, panicked}                         *)
(***************************************************************************)
EXTENDS InjectP, TraceBase
CONSTANT Dev
VARIABLES vals, parent
tvars == <<vals, parent, l>>
Scopes == 1..3
Empty == [k \in Keys |-> None]
TInit == vals = [s \in Scopes |-> Empty] /\ parent = <<0, 1, 1>> /\ LInit
TReset == IsEv("reset") /\ vals' = [s \in Scopes |-> Empty] /\ parent' = Tr[l].parent
TReg == /\ IsEv("reg") /\ LET e == Tr[l] IN vals' = [vals EXCEPT ![e.s][e.k] = Val(e.ct, e.id)]
        /\ UNCHANGED parent
\* a request ended: its scope is gone
TEndReq == IsEv("endreq") /\ vals' = [vals EXCEPT ![Tr[l].s] = Empty] /\ UNCHANGED parent
TInvoke == /\ IsEv("invoke")
           /\ Verdict(IF P_InvokeOK(vals, parent, Tr[l].s, Tr[l].sig, Tr[l]) THEN "ok" ELSE "bad")
           /\ UNCHANGED <<vals, parent>>
TApply == /\ IsEv("apply")
          /\ Verdict(IF P_ApplyOK(vals, parent, Tr[l].s, Tr[l].fields, Tr[l]) THEN "ok" ELSE "bad")
          /\ UNCHANGED <<vals, parent>>
\* the results handed to the ReturnHandler: one call, every result a valid value of the declared result type
\* ("results come back unchanged", for plain functions and for automatically wrapped ones alike)
TRetShape == /\ IsEv("retshape")
             /\ LET e == Tr[l] IN Verdict(IF ~e.panicked /\ e.calls = 1 /\ e.got = e.declared THEN "ok" ELSE "bad")
             /\ UNCHANGED <<vals, parent>>
TNext == TReset \/ TReg \/ TEndReq \/ TInvoke \/ TApply \/ TRetShape
TSpec == TInit /\ [][TNext]_tvars
====
