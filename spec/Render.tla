---- MODULE Render ----
(***************************************************************************)
(* C17, layer I: render.go as a function of its options, composed with the *)
(* response writer (header, then status, then body) and the chain (the     *)
(* Renderer middleware maps Render into the request scope when it runs).   *)
(***************************************************************************)
EXTENDS RenderP, Json
CONSTANTS Dev,       \* negative control "FIXEDCHARSET": PlainText ignores the configured charset
          EmitCases
VARIABLES fmt, status, cs, indent, indent2, pos
vars == <<fmt, status, cs, indent, indent2, pos>>
Init == /\ fmt \in Formats /\ status \in {200, 201, 404, 500} /\ cs \in {"", "latin1"}
        /\ indent \in {"", "  "}            \* the indentation configured for THIS format
        /\ indent2 \in {"", "    "}         \* the one configured for the other encoder (JSONIndent vs XMLIndent)
        /\ pos \in {"after", "before"}
Next == UNCHANGED vars
Spec == Init /\ [][Next]_vars
\* parseRenderOptions + the four methods
OptCharset == IF cs = "" THEN "utf-8" ELSE cs
I_ContentType ==
  CASE fmt = "JSON" -> "application/json; charset=" \o OptCharset
    [] fmt = "XML" -> "text/xml; charset=" \o OptCharset
    [] fmt = "Binary" -> "application/octet-stream"
    [] fmt = "PlainText" -> "text/plain; charset=" \o (IF "FIXEDCHARSET" \in Dev THEN "utf-8" ELSE OptCharset)
\* Header().Set precedes WriteHeader(status); the encoder writes afterwards
I_Obs == [resolved |-> pos = "after", status |-> status, ctype |-> I_ContentType, ctype_at_hdr |-> I_ContentType,
          roundtrip |-> TRUE, body_eq_std |-> TRUE]
Conforms == P_RenderOK(fmt, status, cs, pos, I_Obs)
EmitCase == EmitCases => PrintT("CASE " \o ToJson([fmt |-> fmt, status |-> status, cs |-> cs, indent |-> indent, indent2 |-> indent2, pos |-> pos]))
====
