---- MODULE Chain ----
(***************************************************************************)
(* One request through flamego's handler chain (context.go run()/Next(),   *)
(* return_handler.go, recovery.go).                                        *)
(*                                                                         *)
(* Chain positions 0..N-1 are handlers (application middleware, group      *)
(* handlers, route handlers - in that order), position N is the action     *)
(* (may be nil).  A handler is a PROGRAM: a sequence of operations         *)
(*    "W" WriteHeader   "N" c.Next()   "C" cancel the request context      *)
(*    "P" panic          "R" c.Map(custom ReturnHandler) on the request     *)
(*    (harness and trace specification only: "U" puts the original request *)
(*    back after "C" had installed and cancelled a derived context - event *)
(*    uncancel; "W" stands for any way of starting the response:           *)
(*    WriteHeader / Write / empty Write / Flush / io.Copy - event write    *)
(*    with the implicit status and the bytes)                              *)
(* (the response body is kept as the sequence of chunks written)           *)
(* followed by a return value (a record, see Render).  kind = "rec" is     *)
(* flamego.Recovery(), kind = "inj" a handler whose parameter cannot be    *)
(* resolved (the invocation panics inside run()).                          *)
(*                                                                         *)
(* Layer I: call-stack machine with the code's shared cursor `index`.      *)
(* Layer P: a MONITOR over the event sequence (enter/exit/next/nextret/    *)
(*          write/cancel/panic/punwind/escape/end) that states C03, C14,   *)
(*          C15.  The same monitor judges traces recorded from the real    *)
(*          code (ChainTrace.tla).                                         *)
(***************************************************************************)
EXTENDS ChainP, Json

CONSTANTS N,         \* handlers 0..N-1, action at N
          MaxOps,
          Family,    \* "chain" | "ret" | "rec"
          EmitCases
\* Dev (declared in ChainP): "D8" = cursor as in the code before the repair (Next() increments, run() increments after the call)

(* ----------------------------- programs ------------------------------- *)
OpsU == CASE Family = "rec" -> {"W", "N", "P"} [] Family = "ret" -> {"N", "R"} [] OTHER -> {"W", "N", "C"}
OpSeqs == UNION { [1..n -> OpsU] : n \in 0..MaxOps }
RetU == CASE Family = "ret" ->
               { NoRet, Ret("string", "", 0, ""), Ret("string", "s", 0, ""), Ret("bytes", "", 0, ""), Ret("bytes", "b", 0, ""),
                 Ret("error", "", 0, ""), Ret("error", "", 0, "e"), Ret("ptr_string", "p", 0, ""),
                 Ret("int_string", "", 201, ""), Ret("int_string", "s", 404, ""), Ret("int_bytes", "b", 202, ""), Ret("int_bytes", "", 204, ""),
                 Ret("int_error", "", 418, "e"), Ret("int_error", "", 203, ""),
                 Ret("string_error", "s", 0, ""), Ret("string_error", "s", 0, "e"), Ret("string_error", "", 0, ""),
                 Ret("bytes_error", "b", 0, ""), Ret("bytes_error", "", 0, "e") }
          [] OTHER -> { NoRet, Ret("string", "v", 0, "") }
Prog(ops, ret) == [ops |-> ops, ret |-> ret, kind |-> "prog"]
Programs == { Prog(o, r) : o \in OpSeqs, r \in RetU }
Nil == [ops |-> <<>>, ret |-> NoRet, kind |-> "nil"]
Rec == [ops |-> <<"N">>, ret |-> NoRet, kind |-> "rec"]
Inj == [ops |-> <<>>, ret |-> NoRet, kind |-> "inj"]

VARIABLES progs, index, status, body, cancelled, stack, ev,
          rh        \* a custom ReturnHandler has been mapped into the request scope
vars == <<progs, index, status, body, cancelled, stack, ev, rh>>

RunF == [k |-> "run", h |-> 0, pc |-> 0]
\* chains of the family: "rec" has exactly one Recovery among the handlers and may contain one "inj"
InitProgs ==
  CASE Family = "rec" ->
         { f \in [0..N -> Programs \cup {Nil, Rec, Inj}] :
             /\ Cardinality({ i \in 0..(N - 1) : f[i] = Rec }) = 1 /\ f[N] # Rec
             /\ \A i \in 0..(N - 1) : f[i] # Nil
             /\ Cardinality({ i \in 0..N : f[i] = Inj }) <= 1 }
    [] OTHER -> { f \in [0..N -> Programs \cup {Nil}] : \A i \in 0..(N - 1) : f[i] # Nil }
Init == /\ progs \in InitProgs
        /\ index = 0 /\ status = 0 /\ body = <<>> /\ cancelled = FALSE
        /\ stack = <<RunF>> /\ ev = <<>> /\ rh = FALSE

Top == stack[Len(stack)]
Pop(s) == SubSeq(s, 1, Len(s) - 1)
Fixed == "D8" \notin Dev
E1(e, h) == [e |-> e, h |-> h]
EEnd == [e |-> "end", status |-> status, body |-> body]
\* a run() frame returns: to the body that called Next(), or to ServeHTTP
PopRunEv(s, evs, st, bd) == IF Len(s) > 0 THEN Append(evs, E1("nextret", s[Len(s)].h))
                            ELSE Append(evs, [e |-> "end", status |-> st, body |-> bd])

\* unwinding after a panic raised while `s` is the stack (top first): pop to the nearest Recovery body
RECURSIVE Unwind(_, _)
Unwind(s, evs) ==
  IF Len(s) = 0 THEN [stack |-> s, ev |-> Append(evs, [e |-> "escape"]), caught |-> FALSE]
  ELSE LET f == s[Len(s)] IN
       IF f.k = "body" /\ progs[f.h].kind = "rec" THEN [stack |-> s, ev |-> evs, caught |-> TRUE]
       ELSE IF f.k = "body" THEN Unwind(Pop(s), Append(evs, E1("punwind", f.h)))
       ELSE Unwind(Pop(s), evs)
\* effect of a panic: Recovery writes 500 (if nothing was sent) and its body goes on after c.Next()
Panic(s, evs) ==
  LET u == Unwind(s, evs) IN
  IF u.caught
  THEN /\ rh' = rh
       /\ stack' = [u.stack EXCEPT ![Len(u.stack)].pc = 2]
       /\ ev' = Append(u.ev, E1("nextret", u.stack[Len(u.stack)].h))
       /\ status' = IF status = 0 THEN 500 ELSE status
       /\ body' = Append(body, "<REC>")
  ELSE /\ stack' = u.stack /\ ev' = u.ev /\ UNCHANGED <<status, body, rh>>

RunStep == /\ Len(stack) > 0 /\ Top.k = "run"
           /\ IF index > N \/ cancelled
              THEN /\ stack' = Pop(stack) /\ ev' = PopRunEv(Pop(stack), ev, status, body)
                   /\ UNCHANGED <<progs, index, status, body, cancelled, rh>>
              ELSE IF progs[index].kind = "nil"
                   THEN /\ stack' = Pop(stack) /\ ev' = PopRunEv(Pop(stack), ev, status, body)
                        /\ index' = index + 1 /\ UNCHANGED <<progs, status, body, cancelled, rh>>
              ELSE IF progs[index].kind = "inj"
                   THEN /\ Panic(stack, Append(ev, E1("panic", index)))
                        /\ index' = IF Fixed THEN index + 1 ELSE index
                        /\ UNCHANGED <<progs, cancelled>>
                   ELSE /\ stack' = Append(stack, [k |-> "body", h |-> index, pc |-> 1])
                        /\ ev' = Append(ev, E1("enter", index))
                        /\ index' = IF Fixed THEN index + 1 ELSE index
                        /\ UNCHANGED <<progs, status, body, cancelled, rh>>

BodyStep == /\ Len(stack) > 0 /\ Top.k = "body" /\ Top.pc <= Len(progs[Top.h].ops)
            /\ LET op == progs[Top.h].ops[Top.pc]
                   adv == [stack EXCEPT ![Len(stack)].pc = @ + 1]
               IN CASE op = "W" -> /\ status' = IF status = 0 THEN 200 + Top.h ELSE status
                                   /\ stack' = adv /\ ev' = Append(ev, [e |-> "write", h |-> Top.h, code |-> 200 + Top.h, b |-> ""])
                                   /\ UNCHANGED <<progs, index, body, cancelled, rh>>
                    [] op = "R" -> /\ rh' = TRUE
                                   /\ stack' = adv /\ ev' = Append(ev, E1("setrh", Top.h))
                                   /\ UNCHANGED <<progs, index, status, body, cancelled>>
                    [] op = "C" -> /\ cancelled' = TRUE
                                   /\ stack' = adv /\ ev' = Append(ev, E1("cancel", Top.h))
                                   /\ UNCHANGED <<progs, index, status, body, rh>>
                    [] op = "N" -> /\ index' = IF Fixed THEN index ELSE index + 1
                                   /\ stack' = Append(adv, RunF)
                                   /\ ev' = Append(ev, E1("next", Top.h))
                                   /\ UNCHANGED <<progs, status, body, cancelled, rh>>
                    [] op = "P" -> /\ Panic(stack, Append(ev, E1("panic", Top.h)))
                                   /\ UNCHANGED <<progs, index, cancelled>>

BodyReturn == /\ Len(stack) > 0 /\ Top.k = "body" /\ Top.pc > Len(progs[Top.h].ops)
              /\ LET rr == RenderWith(rh, progs[Top.h].ret)
                     st1 == IF rr.wrote /\ status = 0 THEN rr.code ELSE status
                     bd1 == IF rr.wrote /\ rr.body # "" THEN Append(body, rr.body) ELSE body
                     s1 == Pop(stack)            \* the run frame that invoked us is now on top
                     ev1 == Append(ev, [e |-> "exit", h |-> Top.h, ret |-> progs[Top.h].ret])
                 IN /\ status' = st1 /\ body' = bd1
                    /\ index' = IF Fixed THEN index ELSE index + 1
                    /\ IF st1 # 0
                       THEN /\ stack' = Pop(s1)         \* run() returns because something was written
                            /\ ev' = PopRunEv(Pop(s1), ev1, st1, bd1)
                       ELSE /\ stack' = s1 /\ ev' = ev1
                    /\ UNCHANGED <<progs, cancelled, rh>>

Next == RunStep \/ BodyStep \/ BodyReturn
Spec == Init /\ [][Next]_vars

(* ------------------------- layer I |= layer P -------------------------- *)
Kinds == [i \in 0..N |-> progs[i].kind]
Mon == Fold(Kinds, N, MInit(Kinds, N), ev, 1)
\* C03 / C14 / C15 on the model: every prefix of every run is accepted by the monitor
PropertyHolds == Mon.ok
Terminates == (Len(stack) = 0) => (Mon.pend = "done" \/ Mon.escaped)
\* the model's own bookkeeping agrees with what the monitor derives from the events
StatusAgrees == (Len(stack) = 0 /\ ~Mon.escaped) => (Mon.code = status /\ Mon.body = body)

\* liveness: under weak fairness of the machine every request ends - no program of handlers (Next() loops, nested runs,
\* writes, cancels, panics) keeps run()/Next() going for ever  (C07: serving returns; checked without CONSTRAINT)
FairSpec == Spec /\ WF_vars(Next)
EventuallyEnds == <>(Len(stack) = 0)
\* ... and once ended nothing moves any more
EndedIsFinal == [][Len(stack) = 0 => UNCHANGED vars]_vars

EmitCase == (EmitCases /\ Len(stack) = 0) =>
               PrintT("CASE " \o ToJson([fam |-> Family, n |-> N, progs |-> [i \in 1..(N + 1) |-> progs[i - 1]], ev |-> ev]))
====
