---- MODULE ChainTrace ----
(***************************************************************************)
(* Trace validation for C03 / C14 / C15: the events recorded by the        *)
(* instrumented handlers of the harness while the real flamego serves a    *)
(* request are fed to the monitor of Chain.tla, one event per step.        *)
(*   reset{}                                   next case (fresh Flame)     *)
(*   req{kinds,n,env,rh,method}                 a request begins; kinds[i]  *)
(*                                             = kind of chain position i-1*)
(*   enter/exit/next/nextret/write/cancel/panic/punwind/escape/end         *)
(* An event is rejected at the step where the monitor turns not-ok.        *)
(***************************************************************************)
EXTENDS ChainP, TraceBase
VARIABLES m, pk, nn, env
tvars == <<m, pk, nn, env, l>>

NoM == [ok |-> FALSE, why |-> "no request"]
TInit == m = NoM /\ pk = <<>> /\ nn = 0 /\ env = "" /\ LInit
TReset == IsEv("reset") /\ UNCHANGED <<m, pk, nn, env>>
TReq == /\ IsEv("req")
        /\ LET e == Tr[l]
               k == [i \in 0..e.n |-> e.kinds[i + 1]]
           IN /\ pk' = k /\ nn' = e.n /\ env' = e.env
              /\ m' = [MInit(k, e.n) EXCEPT !.rh = e.rh, !.head = (e.method = "HEAD")]
\* D8 (cursor shared by run() and Next()): a second Next() after the nested run stopped on a write
\* skips exactly one handler
D8Skip(e) == /\ "D8" \in Dev /\ e.e = "enter" /\ m.ok /\ ~m.pan /\ m.pend = "may"
             /\ e.h = m.lastp1 + 1 /\ ~Exh(pk, nn, e.h)
EndOK(e) == e.e = "end" => ((env # "development") => ~e.detail)
TEvent == /\ l <= Len(Tr) /\ Tr[l].ev = "c" /\ l' = l + 1
          /\ LET e == Tr[l]
                 m1 == IF D8Skip(e)
                       THEN [m EXCEPT !.stk = Append(@, [h |-> e.h, inNext |-> FALSE]), !.lastp1 = e.h + 1, !.pend = "body"]
                       ELSE MStep(pk, nn, m, e)
                 v == IF ~m.ok THEN "ok"                        \* already rejected: the rest of this request is not judged again
                      ELSE IF D8Skip(e) THEN "D8"
                      ELSE IF m1.ok /\ EndOK(e) THEN "ok" ELSE "bad"
             IN /\ m' = m1 /\ Verdict(v)
          /\ UNCHANGED <<pk, nn, env>>
TNext == TReset \/ TReq \/ TEvent
TSpec == TInit /\ [][TNext]_tvars
====
