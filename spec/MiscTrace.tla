---- MODULE MiscTrace ----
(* remoteaddr{xreal,xfwd,host,out}  redirect{given,code,loc,status,location}  setenv{before,arg,after}  logger{logged,status} *)
EXTENDS MiscP, TraceBase
CONSTANT Dev
tvars == <<l>>
TInit == LInit
TReset == IsEv("reset")
TRemote == IsEv("remoteaddr") /\ LET e == Tr[l] IN Verdict(IF e.out = P_RemoteAddr(e.xreal, e.xfwd, e.host) THEN "ok" ELSE "bad")
TRedirect == IsEv("redirect") /\ LET e == Tr[l] IN
               Verdict(IF e.status = P_RedirectStatus(e.given, e.code) /\ e.location = e.loc THEN "ok" ELSE "bad")
TSetEnv == IsEv("setenv") /\ LET e == Tr[l] IN Verdict(IF e.after = P_SetEnv(e.before, e.arg) THEN "ok" ELSE "bad")
TLogger == IsEv("logger") /\ LET e == Tr[l] IN Verdict(IF e.logged = e.status THEN "ok" ELSE "bad")
TNext == TReset \/ TRemote \/ TRedirect \/ TSetEnv \/ TLogger
TSpec == TInit /\ [][TNext]_tvars
====
