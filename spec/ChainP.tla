---- MODULE ChainP ----
(***************************************************************************)
(* Property layer of the handler chain (C03, C14, C15): the return table   *)
(* and the monitor over chain events.  Pure definitions - shared by the    *)
(* model (Chain.tla) and the trace specification (ChainTrace.tla).         *)
(***************************************************************************)
EXTENDS Naturals, Sequences, FiniteSets, TLC
CONSTANT Dev
(* ----------------------------- return values -------------------------- *)
\* ret = [shape, s, code, err]  s = body component ("" = empty / nil), err = error message ("" = nil error)
NoRet == [shape |-> "none", s |-> "", code |-> 0, err |-> ""]
Ret(shape, s, code, err) == [shape |-> shape, s |-> s, code |-> code, err |-> err]
\* Render: what the default return handler sends: [wrote, code, body]  (C14's table)
Nothing == [wrote |-> FALSE, code |-> 0, body |-> ""]
Sends(code, body) == [wrote |-> TRUE, code |-> code, body |-> body]
Render(r) ==
  CASE r.shape = "none" -> Nothing
    \* a string or byte slice, also behind one pointer or held in an interface-typed result (nil / empty: nothing)
    [] r.shape \in {"string", "bytes", "ptr_string", "ptr_bytes", "any_string", "any_bytes"} -> IF r.s = "" THEN Nothing ELSE Sends(200, r.s)
    [] r.shape = "int_ptr_bytes" -> Sends(r.code, r.s)
    [] r.shape = "error" -> IF r.err = "" THEN Nothing ELSE Sends(500, r.err)
    \* an error also when the declared result type is a concrete pointer type implementing error (non-nil pointers only)
    [] r.shape = "ptr_err" -> Sends(500, r.err)
    [] r.shape = "int_ptr_err" -> Sends(r.code, r.err)
    [] r.shape \in {"int_string", "int_bytes"} -> Sends(r.code, r.s)
    [] r.shape = "int_error" -> Sends(r.code, r.err)
    [] r.shape \in {"string_error", "bytes_error"} ->
         IF r.err # "" THEN Sends(500, r.err) ELSE IF r.s = "" THEN Nothing ELSE Sends(200, r.s)

\* rh = a ReturnHandler mapped in the injector replaces the table: the harness' custom handler answers every
\* non-empty result list with status 299 and the body "RH"
RenderWith(rh, r) ==
  IF rh THEN (IF r.shape = "none" THEN Nothing ELSE Sends(299, "RH")) ELSE Render(r)

(* ------------------------- layer P: the monitor ----------------------- *)
\* m = [ok, stk, lastp1, st, code, body, cn, pend, pan, why]
\* pend: "must"/"may"/"no": whether the next event must/may/cannot be the start of the next handler;
\*       "body": inside a handler body; "done".
\* The monitor is parameterised by the chain description pk: position -> kind ("prog","nil","rec","inj"), 0..n.
Exh(pk, n, lp1) == lp1 > n \/ pk[lp1] = "nil"
AfterLoop(pk, n, m) == IF Exh(pk, n, m.lastp1) \/ m.cn \/ m.st THEN "no" ELSE "must"
MInit(pk, n) == [ok |-> TRUE, stk |-> <<>>, lastp1 |-> 0, st |-> FALSE, code |-> 0, body |-> <<>>, cn |-> FALSE,
                 pend |-> IF pk[0] = "nil" THEN "no" ELSE "must", pan |-> FALSE, escaped |-> FALSE, why |-> "",
                 rh |-> FALSE,          \* rh: a custom ReturnHandler is mapped for this request (set by the trace spec)
                 bef |-> 0,             \* number of Before handlers (Flame.Before) that have run, FIFO
                 head |-> FALSE]        \* head: a HEAD request - no body byte reaches the underlying writer (C13), so only the status is compared
Bad(m, why) == [m EXCEPT !.ok = FALSE, !.why = why]
HasRec(pk, stk) == \E i \in 1..Len(stk) : pk[stk[i].h] = "rec"
MStep(pk, n, m, e) ==
  IF ~m.ok THEN m
  ELSE LET d == Len(m.stk) IN
  CASE e.e = "before" ->
         \* Flame.Before handlers run first, in registration order, before any routing; the first one that
         \* returns true ends the request without starting the chain
         IF ~m.pan /\ d = 0 /\ m.lastp1 = 0 /\ e.i = m.bef + 1 /\ m.pend \in {"must", "no"} /\ m.pend # "done"
         THEN [m EXCEPT !.bef = e.i, !.pend = IF e.stop THEN "stopped" ELSE @]
         ELSE Bad(m, "Before handler out of order or after the chain started")
    [] e.e = "enter" ->
         \* C03: handlers start strictly in chain order, each at most once, never skipping one
         IF ~m.pan /\ e.h = m.lastp1 /\ m.pend \in {"must", "may"} /\ ~Exh(pk, n, m.lastp1)
         THEN [m EXCEPT !.stk = Append(@, [h |-> e.h, inNext |-> FALSE]), !.lastp1 = @ + 1, !.pend = "body"]
         ELSE Bad(m, "enter out of order / twice / after stop")
    [] e.e = "write" ->
         \* the handler touched the response: WriteHeader(code), or a body write / flush (code = 200, the implicit
         \* status; b = the bytes of a body write, "" for none).  Whatever the form, the response counts as written.
         IF ~m.pan /\ d > 0 /\ m.stk[d].h = e.h /\ m.pend = "body"
         THEN [m EXCEPT !.st = TRUE, !.code = IF m.st THEN @ ELSE e.code, !.body = IF e.b # "" THEN Append(@, e.b) ELSE @]
         ELSE Bad(m, "write outside its handler")
    [] e.e = "setrh" ->
         \* the handler mapped a ReturnHandler into the request scope: it replaces the table from now on
         IF ~m.pan /\ d > 0 /\ m.stk[d].h = e.h /\ m.pend = "body" THEN [m EXCEPT !.rh = TRUE] ELSE Bad(m, "setrh outside its handler")
    [] e.e = "cancel" ->
         IF ~m.pan /\ d > 0 /\ m.stk[d].h = e.h /\ m.pend = "body" THEN [m EXCEPT !.cn = TRUE] ELSE Bad(m, "cancel outside its handler")
    [] e.e = "uncancel" ->
         \* the handler restored the original, un-cancelled request (it had installed a derived context before)
         IF ~m.pan /\ d > 0 /\ m.stk[d].h = e.h /\ m.pend = "body" THEN [m EXCEPT !.cn = FALSE] ELSE Bad(m, "uncancel outside its handler")
    [] e.e = "next" ->
         IF ~m.pan /\ d > 0 /\ m.stk[d].h = e.h /\ m.pend = "body"
         THEN [m EXCEPT !.stk[d].inNext = TRUE,
                        \* an explicit Next() runs the remainder whether or not something has been written (only the
                        \* chain's advancing ON ITS OWN depends on that): the next handler, if any, must start
                        !.pend = IF Exh(pk, n, m.lastp1) \/ m.cn THEN "no" ELSE "must"]
         ELSE Bad(m, "next outside its handler")
    [] e.e = "nextret" ->
         \* the remainder of the chain ran - as far as it gets - inside the Next() call
         IF d > 0 /\ m.stk[d].h = e.h /\ m.stk[d].inNext /\ (m.pend \in {"no", "may"} \/ m.pan)
         THEN IF m.pan
              THEN IF pk[e.h] = "rec"
                   \* C15: Recovery answers 500 unless a status was already sent
                   THEN [m EXCEPT !.stk[d].inNext = FALSE, !.pend = "body", !.pan = FALSE, !.st = TRUE,
                                  !.code = IF m.st THEN @ ELSE 500, !.body = Append(@, "<REC>")]
                   ELSE Bad(m, "Next() returned normally through a panic")
              ELSE [m EXCEPT !.stk[d].inNext = FALSE, !.pend = "body"]
         ELSE Bad(m, "Next() returned although the chain had to advance")
    [] e.e = "exit" ->
         IF ~m.pan /\ d > 0 /\ m.stk[d].h = e.h /\ ~m.stk[d].inNext /\ m.pend = "body"
         THEN LET rr == RenderWith(m.rh, e.ret)
                  m1 == [m EXCEPT !.stk = SubSeq(@, 1, d - 1), !.st = @ \/ rr.wrote,
                                  !.code = IF ~m.st /\ rr.wrote THEN rr.code ELSE @,
                                  !.body = IF rr.wrote /\ rr.body # "" THEN Append(@, rr.body) ELSE @]
              IN [m1 EXCEPT !.pend = AfterLoop(pk, n, m1)]
         ELSE Bad(m, "exit out of nesting order")
    [] e.e = "panic" ->
         \* raised inside a handler body, or by the invocation of an unresolvable handler
         \* (the failed invocation counts as the start of that handler; trying it again is tolerated)
         IF ~m.pan /\ ((d > 0 /\ m.stk[d].h = e.h /\ m.pend = "body")
                       \/ (pk[e.h] = "inj" /\ (e.h = m.lastp1 \/ e.h + 1 = m.lastp1) /\ m.pend \in {"must", "may"}))
         THEN [m EXCEPT !.pan = TRUE, !.lastp1 = IF pk[e.h] = "inj" THEN e.h + 1 ELSE @]
         ELSE Bad(m, "panic event out of place")
    [] e.e = "punwind" ->
         IF m.pan /\ d > 0 /\ m.stk[d].h = e.h /\ pk[e.h] # "rec" THEN [m EXCEPT !.stk = SubSeq(@, 1, d - 1)]
         ELSE Bad(m, "unwinding out of nesting order / through Recovery")
    [] e.e = "escape" ->
         \* C15: never escapes ServeHTTP when a Recovery frame is below the panic
         IF m.pan /\ d = 0 /\ ~HasRec(pk, m.stk) THEN [m EXCEPT !.pan = FALSE, !.escaped = TRUE, !.pend = "no"]
         ELSE Bad(m, "panic escaped ServeHTTP although Recovery was installed before it")
    [] e.e = "hang" -> Bad(m, "ServeHTTP did not return")     \* the harness gave up waiting (C07 / C15: serving returns)
    [] e.e = "end" ->
         IF ~m.pan /\ d = 0 /\ (m.pend \in {"no", "may"} \/ (m.pend = "stopped" /\ m.lastp1 = 0)) /\ (m.escaped \/ (e.status = m.code /\ (IF m.head THEN e.body = <<>> ELSE e.body = m.body)))
         THEN [m EXCEPT !.pend = "done"]
         ELSE Bad(m, "request ended early, with open handlers, or with a status/body the events do not explain")

RECURSIVE Fold(_, _, _, _, _)
Fold(pk, n, m, es, i) == IF i > Len(es) THEN m ELSE Fold(pk, n, MStep(pk, n, m, es[i]), es, i + 1)
====
