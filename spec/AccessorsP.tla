---- MODULE AccessorsP ----
(***************************************************************************)
(* C18, property layer: one rule for every request accessor.               *)
(*   class  "absent" | "empty" | "ok" (present, well-formed) |             *)
(*          "malformed" | "range" (numeric text outside the result type)   *)
(*   The recorded event carries the raw ingredients as strings:            *)
(*     def  the caller's default (hasdef says whether one was given)       *)
(*     conv the present value converted by the standard rules (computed by *)
(*          the harness with strconv / net/url / strings, NOT by flamego)  *)
(*     zero the zero value of the result type                              *)
(*   Rule: a present non-empty value is returned converted (zero when      *)
(*   malformed); an absent or empty one yields the default, else zero.     *)
(***************************************************************************)
EXTENDS Naturals, Sequences, FiniteSets, TLC
WithDefault == {"Query", "QueryTrim", "QueryStrings", "QueryUnescape", "QueryBool", "QueryInt", "QueryInt64", "QueryFloat64"}
NoDefault == {"Param", "ParamInt", "ParamInt64", "Cookie"}
Accessors == WithDefault \cup NoDefault
Classes == {"absent", "empty", "ok", "malformed", "range"}
P_Access(fn, class, hasdef, def, conv, zero) ==
  IF class \in {"absent", "empty"} THEN {IF hasdef /\ fn \in WithDefault THEN def ELSE zero}
  ELSE IF class = "ok" THEN {conv}
  ELSE IF class = "malformed" THEN {zero}
  ELSE {zero, conv}                      \* out of range: the standard parser clamps and reports an error; either is tolerated
====
