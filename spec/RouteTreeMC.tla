---- MODULE RouteTreeMC ----
(***************************************************************************)
(* Model-checking families over RouteTree: TLC enumerates registration     *)
(* histories over a finite segment universe and checks, in every state and *)
(* for EVERY request of the finite request universe, that the              *)
(* implementation-shaped layer I (explicit trees, shortcut table, header   *)
(* gates per leaf) agrees with the declarative layer P computed from the   *)
(* history of accepted registrations.  Every state is emitted as a CASE    *)
(* for replay on the real code.                                            *)
(*                                                                         *)
(*   Family = "prio"  C01/C07: well-formed registrations only, one method  *)
(*            "reg"   C08: ill-formed registrations included               *)
(*            "hdr"   C09/C10: two methods, Headers() calls, shortcut table*)
(***************************************************************************)
EXTENDS RouteTree, Json

CONSTANTS Family, MaxRoutes, MaxSegs, MaxHdrOps,
          Dev,       \* deviations switched on (negative controls; {} = the behaviour the properties demand)
                     \*   "LIFO" insert before equal rank (the mutation named in C01)
                     \*   "D11"  a failed registration leaves its subtrees behind
                     \*   "D6"   Headers() does not reach the implicit short-form leaf
                     \*   "D15"  the handle of a multi-method call only holds the last method's leaf
                     \*   "D7"   an optional static leaf is put into the shortcut table
                     \*   "D16"  a static route shadowed by an earlier optional one is put into the shortcut table
          EmitCases
Lifo == "LIFO" \in Dev
Atomic == "D11" \notin Dev
GateShort == "D6" \notin Dev

\* ------------------------------------------------------------ universes
\* els: g = 0 literal, 1 bind ident / first parameter of a list, 2 further parameter of a list; re = its expression
Lit(v) == [ty |-> "lit", v |-> v, g |-> 0, re |-> ""]
Bnd(v) == [ty |-> "bind", v |-> v, g |-> 1, re |-> ""]
BndRe(v, re) == [ty |-> "bind", v |-> v, g |-> 1, re |-> re]
Seg(k, t, binds, cap, els) == [k |-> k, t |-> t, opt |-> FALSE, binds |-> binds, cap |-> cap, els |-> els, bad |-> FALSE, grp |-> FALSE]
Sa == Seg("S", "a", <<>>, 0, <<Lit("a")>>)
Sb == Seg("S", "b", <<>>, 0, <<Lit("b")>>)
R1 == Seg("R", "{r: /[ab]/}", <<"r">>, 0, <<BndRe("r", "[ab]")>>)
R2 == Seg("R", "{s: /a/}", <<"s">>, 0, <<BndRe("s", "a")>>)
Px == Seg("P", "{x}", <<"x">>, 0, <<Bnd("x")>>)
Py == Seg("P", "{y}", <<"y">>, 0, <<Bnd("y")>>)
Am == Seg("A", "{m: **}", <<"m">>, 0, <<Bnd("m")>>)
An == Seg("A", "{n: **, capture: 2}", <<"n">>, 2, <<Bnd("n")>>)
\* ill-formed material for the "reg" family
Rxx == Seg("R", "{x}.{x}", <<"x", "x">>, 0, <<Bnd("x"), Lit("."), Bnd("x")>>)     \* same bind twice in one segment
Rbad == [Seg("R", "{z: /(/}", <<"z">>, 0, <<BndRe("z", "(")>>) EXCEPT !.bad = TRUE]       \* expression does not compile
Se == EmptySeg

AdmOf(t) == CASE t = "{r: /[ab]/}" -> {"a", "b"} [] t = "{s: /a/}" -> {"a"} [] OTHER -> {}
Atoms == {"a", "b", "", "?a", "{x}"}
RegexTexts == {"{r: /[ab]/}", "{s: /a/}"}
MOrc == [adm |-> { <<t, a>> : t \in RegexTexts, a \in Atoms } \cap { x \in RegexTexts \X Atoms : x[2] \in AdmOf(x[1]) },
         splits |-> { <<x[1], x[2], <<x[2]>>>> : x \in { y \in RegexTexts \X Atoms : y[2] \in AdmOf(y[1]) } }]

SegU == CASE Family = "prio" -> {Sa, Sb, R1, Px, Py, Am, An}
          [] Family = "reg"  -> {Sa, R1, Px, Py, Am, An, Rxx, Rbad, Se}
          [] Family = "hdr"  -> {Sa, Px}
MethodsU == CASE Family = "hdr" -> {"GET", "POST"} [] OTHER -> {"GET"}

MkRoute(s, o, g) == [segs |-> [j \in 1..Len(s) |-> IF j \in o THEN [s[j] EXCEPT !.opt = TRUE] ELSE s[j]], gram |-> g]
SegSeqs == UNION { [1..n -> SegU] : n \in 1..MaxSegs }
\* the optional marker sits on the last segment, except in the "reg" family where it may sit anywhere
RouteU ==
  CASE Family = "reg" ->
         UNION { { MkRoute(s, o, TRUE) : o \in { {} } \cup { {j} : j \in 1..Len(s) } } : s \in SegSeqs }
         \cup { MkRoute(<<Sa>>, {}, FALSE) }                               \* a text outside the grammar
    [] OTHER -> UNION { { MkRoute(s, {}, TRUE), MkRoute(s, {Len(s)}, TRUE) } : s \in SegSeqs }

\* request paths: every sequence of 1..4 atoms, in a fixed order (shorter first)
\* the "hdr" family also requests path segments that are route SYNTAX ("?a", "{x}"): a path spelled like a route text
AtomSeq == IF Family = "hdr" THEN <<"a", "?a", "{x}", "">> ELSE <<"a", "b", "">>
NA == Len(AtomSeq)
RECURSIVE PathsLen(_)
PathsLen(n) == IF n = 0 THEN << <<>> >>
               ELSE LET prev == PathsLen(n - 1)
                    IN [k \in 1..(Len(prev) * NA) |-> Append(prev[((k - 1) \div NA) + 1], AtomSeq[((k - 1) % NA) + 1])]
MaxPath == IF Family = "hdr" THEN 3 ELSE 4
AllPathSeq == IF MaxPath = 3 THEN PathsLen(1) \o PathsLen(2) \o PathsLen(3)
              ELSE PathsLen(1) \o PathsLen(2) \o PathsLen(3) \o PathsLen(4)
\* leading slashes are trimmed before splitting, so a first empty segment only exists for the path "/"
PathSeq == SelectSeq(AllPathSeq, LAMBDA p : Len(p) = 1 \/ p[1] # "")
\* number of leading slashes of the raw request path
LeadU == IF Family = "hdr" THEN {1, 2} ELSE {1}

\* header universe for the "hdr" family: one header K, expression "v" (loose match)
\* expression "" is the documented presence check: any NON-EMPTY value
HdrSpecs == { <<>>, <<[name |-> "K", expr |-> "v"]>>, <<[name |-> "K", expr |-> "^w$"]>>, <<[name |-> "K", expr |-> ""]>> }
ReqHdrs == { [K |-> ""], [K |-> "v"], [K |-> "w"] }
MHOrc == { <<"v", "v">>, <<"^w$", "w">>, <<"", "v">>, <<"", "w">>, <<"", "">> }

\* ------------------------------------------------------------ state
VARIABLES H,        \* history of registrations: [m, r, ok, hdr, call]
          trees,    \* layer I: method -> [nodes, leaves]
          fast,     \* layer I: method -> set of <<route text, leaf id>>   (static shortcut table)
          hops      \* sequence of Headers() calls so far: <<registration, constraint>>
vars == <<H, trees, fast, hops>>

Init == /\ H = <<>> /\ trees = [m \in MethodsU |-> EmptyTree]
        /\ fast = [m \in MethodsU |-> {}] /\ hops = <<>>
        /\ (EmitCases => PrintT("UNIV " \o ToJson([paths |-> PathSeq])))

LeafOfReg(st, i, short) == CHOOSE l \in 1..Len(st.leaves) : st.leaves[l].reg = i /\ st.leaves[l].short = short
HasLeaf(st, i, short) == \E l \in 1..Len(st.leaves) : st.leaves[l].reg = i /\ st.leaves[l].short = short

\* an earlier leaf of the same node matches the same literal (only "/p/?s" before "/p/s")
Shadowed(st, l) == \E q \in 1..Len(st.leaves) : /\ q # l /\ st.leaves[q].par = st.leaves[l].par
                                               /\ st.leaves[q].seg.k = "S" /\ st.leaves[q].seg.t = st.leaves[l].seg.t
                                               /\ st.leaves[q].reg < st.leaves[l].reg
\* router.addRoute for one method
Register(m, r) ==
  /\ Len(H) < MaxRoutes /\ hops = <<>>
  /\ LET i == Len(H) + 1
         res == I_AddRoute(trees[m], r, i, Lifo)
         st1 == IF res.ok \/ ~Atomic THEN [nodes |-> res.nodes, leaves |-> res.leaves] ELSE trees[m]
     IN /\ (Family # "reg" => res.ok)
        /\ trees' = [trees EXCEPT ![m] = st1]
        /\ H' = Append(H, [m |-> m, r |-> r, ok |-> res.ok, hdr |-> <<>>, call |-> i])
        /\ fast' = IF /\ res.ok /\ I_LeafStatic(st1, res.leaf)
                      /\ ("D7" \in Dev \/ ~st1.leaves[res.leaf].seg.opt)
                      /\ ("D16" \in Dev \/ ~Shadowed(st1, res.leaf))
                   THEN [fast EXCEPT ![m] = @ \cup {<<RouteText(r), res.leaf>>}] ELSE fast
        /\ UNCHANGED hops

\* router.Routes(path, "GET,POST", ...): one call, one registration per method, ONE handle
RegisterBoth(r) ==
  /\ Family = "hdr" /\ Len(H) + 2 <= MaxRoutes /\ hops = <<>>
  /\ LET i == Len(H) + 1
         r1 == I_AddRoute(trees["GET"], r, i, Lifo)
         r2 == I_AddRoute(trees["POST"], r, i + 1, Lifo)
         s1 == [nodes |-> r1.nodes, leaves |-> r1.leaves]
         s2 == [nodes |-> r2.nodes, leaves |-> r2.leaves]
         fs(st, res) == res.ok /\ I_LeafStatic(st, res.leaf) /\ ~st.leaves[res.leaf].seg.opt /\ ~Shadowed(st, res.leaf)
     IN /\ r1.ok /\ r2.ok
        /\ trees' = [trees EXCEPT !["GET"] = s1, !["POST"] = s2]
        /\ H' = H \o << [m |-> "GET", r |-> r, ok |-> TRUE, hdr |-> <<>>, call |-> i],
                        [m |-> "POST", r |-> r, ok |-> TRUE, hdr |-> <<>>, call |-> i] >>
        /\ fast' = [fast EXCEPT !["GET"] = IF fs(s1, r1) THEN @ \cup {<<RouteText(r), r1.leaf>>} ELSE @,
                               !["POST"] = IF fs(s2, r2) THEN @ \cup {<<RouteText(r), r2.leaf>>} ELSE @]
        /\ UNCHANGED hops

\* Route.Headers(pairs...) on the handle returned by call c.  The property: every registration of
\* the call is gated, in both forms.  Deviations: D15 the handle only holds the last method's leaf,
\* D6 the implicit short-form leaf is never reached.
SetHeaders(c, hs) ==
  /\ Family = "hdr" /\ Len(hops) < MaxHdrOps /\ c \in 1..Len(H) /\ H[c].ok /\ H[c].call = c
  /\ LET regs == { i \in 1..Len(H) : H[i].call = c }
         held == IF "D15" \in Dev THEN { CHOOSE i \in regs : \A q \in regs : q <= i } ELSE regs
         newLeaves(m) ==
           LET st == trees[m] IN
           [l \in 1..Len(st.leaves) |->
              IF st.leaves[l].reg \in held /\ H[st.leaves[l].reg].m = m /\ (~st.leaves[l].short \/ GateShort)
              THEN [st.leaves[l] EXCEPT !.hdr = hs] ELSE st.leaves[l]]
     IN /\ trees' = [m \in MethodsU |-> [trees[m] EXCEPT !.leaves = newLeaves(m)]]
        /\ fast' = [m \in MethodsU |-> { x \in fast[m] : ~(trees[m].leaves[x[2]].reg \in held) }]
        /\ H' = [i \in 1..Len(H) |-> IF i \in regs THEN [H[i] EXCEPT !.hdr = hs] ELSE H[i]]
        /\ hops' = Append(hops, [reg |-> c, hdr |-> hs])

Next == \/ \E m \in MethodsU, r \in RouteU : Register(m, r)
        \/ \E r \in RouteU : RegisterBoth(r)
        \/ \E i \in 1..Len(H), hs \in HdrSpecs : SetHeaders(i, hs)
Spec == Init /\ [][Next]_vars

\* ------------------------------------------------------------ layer I: router.ServeHTTP
OkLeaves(st, rh) == { l \in 1..Len(st.leaves) : Eligible(st.leaves[l].hdr, rh, MHOrc) }
PathText(p) == "/" \o JoinStr(p, 1, Len(p), "/")
RawText(ls, p) == (IF ls = 2 THEN "/" ELSE "") \o PathText(p)
\* outcome <<reg, short, counts>>; the shortcut is consulted first with the literal request path
I_Serve(m, ls, p, rh) ==
  LET st == trees[m]
      hit == { x \in fast[m] : x[1] = RawText(ls, p) }
  IN IF hit # {} THEN LET l == (CHOOSE x \in hit : TRUE)[2] IN <<st.leaves[l].reg, st.leaves[l].short, [j \in 1..Len(p) |-> 1]>>
     ELSE LET r == I_Match(st, p, MOrc, OkLeaves(st, rh))
          IN IF r[1] = 0 THEN <<0, FALSE, <<>>>> ELSE <<st.leaves[r[1]].reg, st.leaves[r[1]].short, r[2]>>

P_Serve(m, p, rh) == LET w == P_Winner(H, m, p, rh, MOrc, MHOrc) IN <<w.reg, w.short, w.c>>

\* ------------------------------------------------------------ invariants (layer I |= layer P)
NoHdr == [K |-> ""]
RH == IF Family = "hdr" THEN ReqHdrs ELSE {NoHdr}
\* C01 / C09 / C10: the operational outcome is the declarative winner, for every request
DispatchIff == \A m \in MethodsU, k \in 1..Len(PathSeq), rh \in RH, ls \in LeadU :
                  I_Serve(m, ls, PathSeq[k], rh) = P_Serve(m, PathSeq[k], rh)
\* every list of subtrees / leaves is sorted by rank
TreeSorted == \A m \in MethodsU :
   LET st == trees[m] IN
   \A n \in 1..Len(st.nodes) :
      /\ \A a, b \in 1..Len(st.nodes[n].subs) : a < b => Rank(st.nodes[st.nodes[n].subs[a]].seg.k) <= Rank(st.nodes[st.nodes[n].subs[b]].seg.k)
      /\ \A a, b \in 1..Len(st.nodes[n].lvs) : a < b => Rank(st.leaves[st.nodes[n].lvs[a]].seg.k) <= Rank(st.leaves[st.nodes[n].lvs[b]].seg.k)
\* C08: accepted iff well-formed w.r.t. the accepted history
AcceptIff == \A i \in 1..Len(H) : H[i].ok = P_WellFormed(SubSeq(H, 1, i - 1), H[i].m, H[i].r)
\* C02 / C12 on the segment-level universe: the captured values (layer I: the counts of the
\* operational match) substituted back into the route reproduce the request path
I_Vals(sg, c, p) ==
  LET bs == { j \in 1..Len(sg) : sg[j].k # "S" }
      nm(j) == sg[j].binds[1]
  IN [n \in { nm(j) : j \in bs } |->
        LET j == CHOOSE j \in bs : nm(j) = n
        IN JoinStr(p, SegStart(c, j), SegStart(c, j) + c[j] - 1, "/")]
RoundTrip == \A m \in MethodsU, k \in 1..Len(PathSeq) :
   LET p == PathSeq[k]
       o == I_Serve(m, 1, p, NoHdr)
   IN o[1] # 0 =>
      LET r == H[o[1]].r
          sg == IF o[2] THEN ShortSegs(r) ELSE LongSegs(r)
      IN \/ P_Build(r, I_Vals(sg, o[3], p), ~o[2]) = PathText(p)
         \/ (o[2] /\ Len(r.segs) = 1 /\ p = <<"">>)     \* short form of a one-segment optional route is "/"

\* ------------------------------------------------------------ emission
RECURSIVE WinStr(_, _, _)
WinStr(m, rh, k) == IF k > Len(PathSeq) THEN ""
                    ELSE ToString(P_Serve(m, PathSeq[k], rh)[1]) \o WinStr(m, rh, k + 1)
HKey(h) == IF h = "" THEN "none" ELSE h
Wins == [m \in MethodsU |-> [hk \in { HKey(rh.K) : rh \in RH } |->
            WinStr(m, CHOOSE rh \in RH : HKey(rh.K) = hk, 1)]]
AtEnd == Len(H) = MaxRoutes \/ hops # <<>>
EmitCase == (EmitCases /\ Len(H) > 0 /\ AtEnd) =>
               PrintT("CASE " \o ToJson([fam |-> Family, H |-> H, wins |-> Wins, hops |-> hops]))
====
