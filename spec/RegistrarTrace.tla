---- MODULE RegistrarTrace ----
(***************************************************************************)
(* Trace validation for C11.  The harness executes a registration program  *)
(* on a real Flame (every variadic handler list passed with spare          *)
(* capacity) and probes it:                                                *)
(*   reset{}  prog{prog, panicked}  req{m, path, ids, route, status}       *)
(* ids = the handler ids that ran, in order.  Expected behaviour is the    *)
(* flat expansion computed by P_Flatten from the logged program.           *)
(***************************************************************************)
EXTENDS RegistrarP, TraceBase
VARIABLES flat,
          hw      \* a HandlerWrapper is installed and applies to every handler of the program
tvars == <<flat, hw, l>>
TInit == flat = <<>> /\ hw = FALSE /\ LInit
TReset == IsEv("reset") /\ flat' = <<>> /\ hw' = FALSE
TProg == /\ IsEv("prog")
         /\ LET e == Tr[l] IN
            /\ flat' = P_Flatten(e.prog) /\ hw' = e.hw
            /\ Verdict(IF e.panicked = P_Panics(e.prog) THEN "ok" ELSE "bad")
TReq == /\ IsEv("req")
        /\ LET e == Tr[l]
               R == { k \in 1..Len(flat) : flat[k].m = e.m /\ flat[k].path = e.path }
               ok == IF R = {} THEN e.status = 404 /\ e.ids = <<>>
                     ELSE LET k == CHOOSE k \in R : TRUE IN /\ e.ids = flat[k].hs /\ (flat[k].hs # <<>> => e.route = flat[k].path) /\ e.status # 404
                                                      \* like the flat registration: every handler of the chain is wrapped, once
                                                      /\ (hw => e.nw = Len(flat[k].hs))
                                                      \* the final action saw the request as it came in and answered it; a HEAD
                                                      \* request gets no body bytes, however its route was added (AutoHead twin)
                                                      /\ e.seen_m = e.m /\ e.bodylen = (IF e.m = "HEAD" THEN 0 ELSE 4)
           IN Verdict(IF ok THEN "ok" ELSE "bad")
        /\ UNCHANGED <<flat, hw>>
TNext == TReset \/ TProg \/ TReq
TSpec == TInit /\ [][TNext]_tvars
====
