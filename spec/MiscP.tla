---- MODULE MiscP ----
(***************************************************************************)
(* Behaviour beyond the eighteen listed properties (specification growth): *)
(*  RemoteAddr   X-Real-IP, else X-Forwarded-For, else the host part of    *)
(*               http.Request.RemoteAddr                                   *)
(*  Redirect     status 302 unless one is given; Location as given         *)
(*  SetEnv / Env only development | production | test are accepted,        *)
(*               anything else leaves the environment unchanged            *)
(*  Logger       the status it logs after Next() is the status sent        *)
(***************************************************************************)
EXTENDS Naturals, Sequences, FiniteSets, TLC
Envs == {"development", "production", "test"}
P_RemoteAddr(xreal, xfwd, host) == IF xreal # "" THEN xreal ELSE IF xfwd # "" THEN xfwd ELSE host
P_RedirectStatus(given, code) == IF given THEN code ELSE 302
P_SetEnv(before, arg) == IF arg \in Envs THEN arg ELSE before
====
