---- MODULE Concurrent ----
(***************************************************************************)
(* C05: N requests served concurrently by one Flame after set-up.          *)
(* Shared state (read-only after set-up): route trees, shortcut table,     *)
(* named routes, the middleware slice `arr` (with spare capacity), the     *)
(* application injector; lazily rendered route strings guarded by once.    *)
(* Per request: params, handler list, request scope, response writer.      *)
(* Steps of a request (one action each, freely interleaved):               *)
(*   Lookup   match the route, fresh Params map                            *)
(*   Render   leaf.Route(): once-guarded lazy String() of the shared AST   *)
(*   Ctx      createContext: FRESH handler slice = middleware ++ route's   *)
(*   H1       middleware: c.Map(tag of this request)                       *)
(*   H2       route handler: reads params / injected tag, builds a URL,    *)
(*            writes through its own writer                                *)
(* Dev (negative controls): "SHAREDSLICE" Ctx appends into the shared      *)
(* backing array; "NOONCE" Render is check-then-set without a guard;       *)
(* "SHAREDRENDER" the Renderer middleware re-binds ONE render object       *)
(* instead of creating one per request; "SHAREDSRC" Recovery keeps the     *)
(* source file it last read (for the stack listing) in the middleware      *)
(* closure instead of in the call; "SHAREDPARAMS" the static shortcut hands *)
(* every request of a static route ONE Params map built at registration;   *)
(* "SHAREDLOGGER" the Logger middleware derives its prefixed logger from    *)
(* the logger injected into the FIRST request and keeps it.                *)
(*   Rec      Recovery formats the panic of a "panic" route: stack frames  *)
(*            with source lines from a per-call file cache, then answers   *)
(***************************************************************************)
EXTENDS ConcurrentP, Json
CONSTANTS NProc, Dev, EmitCases
Procs == 1..NProc
Vals == {"v1", "v2"}
VARIABLES req, pc, params, hl, scope, out, arr, cache, seen, W, sched,
          slog,     \* whose request-scoped logger the Logger middleware writes through when it derives its logger only once (deviation SHAREDLOGGER; 0 = not yet derived)
          spar,     \* the scratch entry of the one Params map shared by the requests of the static route (deviation SHAREDPARAMS)
          rend      \* which request's writer the Render object seen by request p writes to (0 = the one shared cell)
vars == <<req, pc, params, hl, scope, out, arr, cache, seen, W, sched, rend, spar, slog>>

ReqU == { [id |-> p, route |-> k, val |-> v] : p \in Procs, k \in {"static", "param", "render", "panic"}, v \in Vals }
Init == /\ req \in { f \in [Procs -> ReqU] : \A p \in Procs : f[p].id = p }
        /\ pc = [p \in Procs |-> "lookup"] /\ params = [p \in Procs |-> <<>>]
        /\ hl = [p \in Procs |-> <<>>] /\ scope = [p \in Procs |-> {}] /\ out = [p \in Procs |-> <<>>]
        /\ arr = <<"mw1", "free">>                  \* f.handlers with one spare slot
        /\ cache = [k \in RouteKinds |-> "unset"] /\ seen = [p \in Procs |-> FALSE]
        /\ W = {} /\ sched = <<>> /\ rend = [p \in 0..NProc |-> p] /\ spar = 0 /\ slog = 0

Lookup(p) == /\ pc[p] = "lookup"
             /\ params' = [params EXCEPT ![p] = [route |-> req[p].route, val |-> req[p].val]]
             /\ pc' = [pc EXCEPT ![p] = "render"]
             /\ sched' = Append(sched, p)
             /\ UNCHANGED <<req, hl, scope, out, arr, cache, seen, W, rend, spar, slog>>
\* sync.Once: test and set in one atomic step; only the winner writes
RenderOnce(p) == /\ pc[p] = "render" /\ "NOONCE" \notin Dev
                 /\ cache' = [cache EXCEPT ![req[p].route] = "set"]
                 /\ pc' = [pc EXCEPT ![p] = "ctx"]
                 /\ UNCHANGED <<req, params, hl, scope, out, arr, seen, W, sched, rend, spar, slog>>
\* negative control: `if s.str == "" { s.str = render() }`
RenderCheck(p) == /\ pc[p] = "render" /\ "NOONCE" \in Dev
                  /\ seen' = [seen EXCEPT ![p] = cache[req[p].route] = "set"]
                  /\ pc' = [pc EXCEPT ![p] = "renderset"]
                  /\ UNCHANGED <<req, params, hl, scope, out, arr, cache, W, sched, rend, spar, slog>>
RenderSet(p) == /\ pc[p] = "renderset"
                /\ IF seen[p] THEN UNCHANGED <<cache, W>>
                   ELSE cache' = [cache EXCEPT ![req[p].route] = "set"] /\ W' = W \cup {<<req[p].route, p>>}
                /\ pc' = [pc EXCEPT ![p] = "ctx"]
                /\ UNCHANGED <<req, params, hl, scope, out, arr, seen, sched, rend, spar, slog>>
Ctx(p) == /\ pc[p] = "ctx"
          /\ IF "SHAREDSLICE" \in Dev
             THEN /\ arr' = [arr EXCEPT ![2] = req[p].route]         \* append(f.handlers, ...) reuses the spare slot
                  /\ hl' = [hl EXCEPT ![p] = <<"alias">>] /\ W' = W \cup {<<"arr", p>>}
             ELSE /\ hl' = [hl EXCEPT ![p] = <<"mw1", req[p].route>>] /\ UNCHANGED <<arr, W>>
          /\ pc' = [pc EXCEPT ![p] = "h1"]
          /\ UNCHANGED <<req, params, scope, out, cache, seen, sched, rend, spar, slog>>
\* middleware: c.Map(tag), then Renderer: a FRESH render object bound to this request's writer
H1(p) == /\ pc[p] = "h1"
         /\ scope' = [scope EXCEPT ![p] = @ \cup {p}]
         /\ LET sp == "SHAREDPARAMS" \in Dev /\ req[p].route = "static"      \* c.Params()["_scratch"] = id lands in the one shared map
                sr == "SHAREDRENDER" \in Dev                               \* r.responseWriter = c.ResponseWriter() on the one object
            IN /\ rend' = IF sr THEN [rend EXCEPT ![0] = p] ELSE rend
               /\ spar' = IF sp THEN p ELSE spar
               /\ slog' = IF "SHAREDLOGGER" \in Dev /\ slog = 0 THEN p ELSE slog    \* once.Do(derive from THIS request's logger)
               /\ W' = W \cup (IF sr THEN {<<"rend", p>>} ELSE {}) \cup (IF sp THEN {<<"params", p>>} ELSE {})
                         \cup (IF "SHAREDLOGGER" \in Dev /\ slog = 0 THEN {<<"logger", p>>} ELSE {})
         /\ pc' = [pc EXCEPT ![p] = "h2"] /\ sched' = Append(sched, p)
         /\ UNCHANGED <<req, params, hl, out, arr, cache, seen>>
H2(p) == /\ pc[p] = "h2" /\ req[p].route # "panic"
         /\ LET h == IF hl[p] = <<"alias">> THEN arr[2] ELSE hl[p][2]
                tg == CHOOSE t \in scope[p] : TRUE
            IN out' = [out EXCEPT ![p] = [h |-> h, val |-> IF HasVal(params[p].route) THEN params[p].val ELSE "",
                                          tag |-> tg, url |-> "/p/" \o params[p].val,
                                          \* a "render" route writes through the Render object it was given
                                          wid |-> IF req[p].route = "render" /\ "SHAREDRENDER" \in Dev THEN rend[0] ELSE p,
                                          \* the scratch entry the middleware of THIS request left in its Params map
                                          scr |-> IF "SHAREDPARAMS" \in Dev /\ req[p].route = "static" THEN spar ELSE p,
                                          \* the Logger middleware logged this request's two lines through this request's own logger
                                          log |-> IF "SHAREDLOGGER" \in Dev /\ slog # p THEN 0 ELSE 20]]
         /\ pc' = [pc EXCEPT ![p] = "done"] /\ sched' = Append(sched, p)
         /\ UNCHANGED <<req, params, hl, scope, arr, cache, seen, W, rend, spar, slog>>
\* the route handler panics; the deferred function of Recovery (an earlier middleware of the same request) formats the
\* stack - reading source files through a cache of the last file - and answers on this request's writer
H2Panic(p) == /\ pc[p] = "h2" /\ req[p].route = "panic"
              /\ pc' = [pc EXCEPT ![p] = "rec"] /\ sched' = Append(sched, p)
              /\ UNCHANGED <<req, params, hl, scope, out, arr, cache, seen, W, rend, spar, slog>>
Rec(p) == /\ pc[p] = "rec"
          /\ W' = IF "SHAREDSRC" \in Dev THEN W \cup {<<"src", p>>} ELSE W
          /\ LET tg == CHOOSE t \in scope[p] : TRUE
             IN out' = [out EXCEPT ![p] = [h |-> "panic", val |-> params[p].val, tag |-> tg, url |-> "/p/" \o params[p].val, wid |-> p, scr |-> p,
                                           log |-> IF "SHAREDLOGGER" \in Dev /\ slog # p THEN 0 ELSE 20]]
          /\ pc' = [pc EXCEPT ![p] = "done"]
          /\ UNCHANGED <<req, params, hl, scope, arr, cache, seen, sched, rend, spar, slog>>
Next == \E p \in Procs : H2Panic(p) \/ Rec(p) \/ Lookup(p) \/ RenderOnce(p) \/ RenderCheck(p) \/ RenderSet(p) \/ Ctx(p) \/ H1(p) \/ H2(p)
Spec == Init /\ [][Next]_vars

\* liveness: with each request scheduled fairly, every request is answered whatever the others do - the once guard, the
\* shared slices and the injector never make one request wait for another
Step(p) == H2Panic(p) \/ Rec(p) \/ Lookup(p) \/ RenderOnce(p) \/ RenderCheck(p) \/ RenderSet(p) \/ Ctx(p) \/ H1(p) \/ H2(p)
FairSpec == Spec /\ \A p \in Procs : WF_vars(Step(p))
EveryRequestAnswered == \A p \in Procs : <>(pc[p] = "done")
\* wait-freedom in the small: a request that can take a step can take it without any other request moving first
NoWaiting == \A p \in Procs : pc[p] # "done" => ENABLED Step(p)

SerialEquivalence == \A p \in Procs : pc[p] = "done" => out[p] = Serial(req[p])
Isolation == \A p \in Procs : scope[p] \subseteq {p}
\* no two requests write the same shared cell without synchronisation (the race detector's view)
NoRace == \A a, b \in W : a[1] = b[1] => a[2] = b[2]
\* nothing but the once-guarded caches is written after set-up
ReadOnlyAfterSetup == W = {} /\ arr = <<"mw1", "free">>
AllDone == \A p \in Procs : pc[p] = "done"
EmitCase == (EmitCases /\ AllDone) => PrintT("CASE " \o ToJson([reqs |-> [p \in Procs |-> req[p]], sched |-> sched]))
View == <<req, pc, params, hl, scope, out, arr, cache, seen, W, rend, spar, slog>>
====
