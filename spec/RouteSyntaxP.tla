---- MODULE RouteSyntaxP ----
(***************************************************************************)
(* C06, property layer: the DOCUMENTED route grammar                       *)
(* (internal/route/README.md) as recursive operators over a string given   *)
(* as a sequence of CLASS symbols, one per character:                      *)
(*    "/" "?" "{" "}" ":" ","  " "   the structural characters and blank   *)
(*    "i"  characters legal in identifiers and in regex values             *)
(*    "o"  ~ @ ! & ' ; % =           "$"  the dollar sign                  *)
(*    "r"  [ ] \ |                   "w"  white space other than blank     *)
(*    "x"  anything else (any other byte)                                  *)
(* id[k] / an[k] say whether character k belongs to the documented <char>  *)
(* / <any> sets; in model checking they follow from the class (IdentDoc,   *)
(* AnyDoc), in trace validation the harness reads them off the README of   *)
(* the repository under test.                                              *)
(*                                                                         *)
(*   <ident> ::= <char>+                                                   *)
(*   <bind_parameter_value> ::= <ident> | "/" <any>+ "/"                   *)
(*   <bind_parameter>  ::= <ident> ":" " "* <bind_parameter_value>         *)
(*   <bind_parameters> ::= <bind_parameter> | <bind_parameters> "," " "*   *)
(*                         <bind_parameter>                                *)
(*   <segment_element> ::= <ident> | "{" <ident> "}" | "{" <bind_parameters> "}" *)
(*   <segment> ::= "/" "?"? <segment_element>*     <route> ::= <segment>+  *)
(* Every operator returns the SET of end positions (exclusive).            *)
(***************************************************************************)
EXTENDS Naturals, Sequences, FiniteSets, TLC

IdentDoc == {"i", "o"}
AnyDoc == {"i", "o", "r", ",", "?", "{", "}", " "}
IdentLex == {"i", "o", "$"}                               \* the lexer's Ident class
RegexLex == {"i", "r", ",", "?", "{", "}", " "}             \* the lexer's Regex class
FlagsOf(s, S) == [k \in 1..Len(s) |-> s[k] \in S]

Is(s, i, c) == i <= Len(s) /\ s[i] = c
RECURSIVE CRun(_, _, _)
\* all ends of a non-empty run of characters flagged by fl, starting at i
CRun(s, i, fl) == IF i <= Len(s) /\ fl[i] THEN {i + 1} \cup CRun(s, i + 1, fl) ELSE {}
RECURSIVE CBlanks(_, _)
CBlanks(s, i) == {i} \cup (IF Is(s, i, " ") THEN CBlanks(s, i + 1) ELSE {})
\* a regex value may contain "/"?  No: "/" is not in <any>, so the value ends at the first "/".
CBPV(s, i, id, an) == CRun(s, i, id) \cup (IF Is(s, i, "/") THEN { j + 1 : j \in { k \in CRun(s, i + 1, an) : Is(s, k, "/") } } ELSE {})
CBP(s, i, id, an) == UNION { IF Is(s, j, ":") THEN UNION { CBPV(s, k, id, an) : k \in CBlanks(s, j + 1) } ELSE {} : j \in CRun(s, i, id) }
RECURSIVE CBPS(_, _, _, _)
CBPS(s, i, id, an) == LET first == CBP(s, i, id, an)
                      IN first \cup UNION { IF Is(s, j, ",") THEN UNION { CBPS(s, k, id, an) : k \in CBlanks(s, j + 1) } ELSE {} : j \in first }
CSE(s, i, id, an) == CRun(s, i, id)
             \cup (IF Is(s, i, "{") THEN { j + 1 : j \in { k \in CRun(s, i + 1, id) : Is(s, k, "}") } } ELSE {})
             \cup (IF Is(s, i, "{") THEN { j + 1 : j \in { k \in CBPS(s, i + 1, id, an) : Is(s, k, "}") } } ELSE {})
RECURSIVE CSEStar(_, _, _, _)
CSEStar(s, i, id, an) == {i} \cup UNION { CSEStar(s, j, id, an) : j \in CSE(s, i, id, an) }
CSeg(s, i, id, an) == IF Is(s, i, "/")
                      THEN CSEStar(s, i + 1, id, an) \cup (IF Is(s, i + 1, "?") THEN CSEStar(s, i + 2, id, an) ELSE {})
                      ELSE {}
RECURSIVE CRoute(_, _, _, _)
CRoute(s, i, id, an) == LET one == CSeg(s, i, id, an) IN one \cup UNION { CRoute(s, j, id, an) : j \in one }
Derives(s, id, an) == (Len(s) + 1) \in CRoute(s, 1, id, an)
DerivesDoc(s) == Derives(s, FlagsOf(s, IdentDoc), FlagsOf(s, AnyDoc))
DerivesLex(s) == Derives(s, FlagsOf(s, IdentLex), FlagsOf(s, RegexLex))

(* -------- canonical form and structure of a DERIVABLE string ---------- *)
\* ch = the characters themselves (one-character strings), s = their classes.
RECURSIVE Cat(_, _, _)
Cat(ch, i, j) == IF i >= j THEN "" ELSE ch[i] \o Cat(ch, i + 1, j)
RECURSIVE RunEnd(_, _, _)
RunEnd(s, i, fl) == IF i <= Len(s) /\ fl[i] THEN RunEnd(s, i + 1, fl) ELSE i
RECURSIVE SkipBl(_, _)
SkipBl(s, i) == IF Is(s, i, " ") THEN SkipBl(s, i + 1) ELSE i
RECURSIVE UntilSlash(_, _)
UntilSlash(s, i) == IF i > Len(s) \/ s[i] = "/" THEN i ELSE UntilSlash(s, i + 1)

\* token list mirroring the derivation: seg, opt, lit:<t>, bind:<n>, open, p:<n>, re:<t>, val:<t>, close
\* mode 0 = inside a segment, 1 = inside "{ ... }" expecting a parameter name
RECURSIVE Toks(_, _, _, _, _)
Toks(ch, s, i, id, mode) ==
  IF i > Len(s) THEN <<>>
  ELSE IF mode = 0 THEN
         IF s[i] = "/" THEN <<"seg">> \o Toks(ch, s, i + 1, id, 0)
         ELSE IF s[i] = "?" THEN <<"opt">> \o Toks(ch, s, i + 1, id, 0)
         ELSE IF s[i] = "{" THEN
              LET e == RunEnd(s, i + 1, id) IN
              IF Is(s, e, "}") THEN <<"bind:" \o Cat(ch, i + 1, e)>> \o Toks(ch, s, e + 1, id, 0)
              ELSE <<"open">> \o Toks(ch, s, i + 1, id, 1)
         ELSE LET e == RunEnd(s, i, id) IN
              IF e = i THEN <<"?unexpected">> ELSE <<"lit:" \o Cat(ch, i, e)>> \o Toks(ch, s, e, id, 0)
       ELSE \* parameter:  name ":" blanks value ( "," blanks | "}" )
         LET e == RunEnd(s, i, id)          \* name
             v == SkipBl(s, e + 1)          \* start of the value (after ":" and blanks)
         IN IF Is(s, v, "/")
            THEN LET q == UntilSlash(s, v + 1)
                     nx == q + 1
                 IN <<"p:" \o Cat(ch, i, e), "re:" \o Cat(ch, v + 1, q)>>
                    \o (IF Is(s, nx, ",") THEN Toks(ch, s, SkipBl(s, nx + 1), id, 1)
                        ELSE <<"close">> \o Toks(ch, s, nx + 1, id, 0))
            ELSE LET q == RunEnd(s, v, id)
                 IN <<"p:" \o Cat(ch, i, e), "val:" \o Cat(ch, v, q)>>
                    \o (IF Is(s, q, ",") THEN Toks(ch, s, SkipBl(s, q + 1), id, 1)
                        ELSE <<"close">> \o Toks(ch, s, q + 1, id, 0))
P_Tokens(ch, s, id) == Toks(ch, s, 1, id, 0)

\* canonical text: identical to the input except that the blanks after ":" and "," (outside regex
\* values) are normalised to exactly one
RECURSIVE Canon(_, _, _, _)
Canon(ch, s, i, inre) ==
  IF i > Len(s) THEN <<>>
  ELSE IF inre THEN <<ch[i]>> \o Canon(ch, s, i + 1, s[i] # "/")
  ELSE IF s[i] \in {":", ","} /\ i > 1 THEN
         LET v == SkipBl(s, i + 1) IN
         \* ":" and "," only occur inside "{...}" in a derivable string
         <<ch[i], " ">> \o (IF Is(s, v, "/") /\ s[i] = ":" THEN <<ch[v]>> \o Canon(ch, s, v + 1, TRUE) ELSE Canon(ch, s, v, FALSE))
  ELSE <<ch[i]>> \o Canon(ch, s, i + 1, FALSE)
P_Canon(ch, s) == Canon(ch, s, 1, FALSE)
====
