---- MODULE RouteTreeTrace ----
(***************************************************************************)
(* Trace validation of the routing core against layer P of RouteTree.      *)
(* The state is the HISTORY of registrations as the real code answered     *)
(* them; every event is judged by the declarative definitions.             *)
(*                                                                         *)
(* Events (recorded by harness/tree.go from route.Tree / flamego.Flame):   *)
(*  reset   {case}                                                         *)
(*  AddRoute{m, r, accepted, skipped, call, ck}   one method registration *)
(*  Headers {regs, hdr}                 Route.Headers on the handle that   *)
(*                                      the call creating regs returned    *)
(*  Name    {reg, name, panicked}                                          *)
(*  Serve   {oskip, m, raw, p, h, dec, decok, adm, splits, hadm,           *)
(*           reg, params, panicked, chains, rb_with, rb_without}           *)
(*  URLPath {reg, vals, withopt, out, panicked, byname}                    *)
(* adm/splits/hadm/dec/decok are oracle facts computed by the harness with *)
(* an independent procedure (per-bind anchored full match, own percent     *)
(* decoder); the specification treats them as given.                       *)
(*                                                                         *)
(* Dev = ids of open known findings.  An event P rejects is excused only   *)
(* if it lies in the trigger class of an open finding AND the real outcome *)
(* is the deviant outcome that finding describes.                          *)
(***************************************************************************)
EXTENDS RouteTree, TraceBase
CONSTANT Dev
VARIABLES H, names,
          taint    \* the code accepted a registration that layer P does not consider well-formed: from then on the set of
                   \* "successfully registered routes" of this case is not the one P knows, and the events that presuppose it
                   \* (Serve, URLPath, Name) get no verdict (the acceptance itself is judged: verdict "accept", owned by C08)
tvars == <<H, names, taint, l>>

TInit == H = <<>> /\ names = {} /\ taint = FALSE /\ LInit
TReset == IsEv("reset") /\ H' = <<>> /\ names' = {} /\ taint' = FALSE

SeqToSet(s) == { s[i] : i \in 1..Len(s) }
PairsToFun(ps) == [k \in { ps[i][1] : i \in 1..Len(ps) } |-> ps[CHOOSE i \in 1..Len(ps) : ps[i][1] = k /\ \A j \in 1..Len(ps) : ps[j][1] = k => j <= i][2]]

(* ---------------------------- AddRoute ------------------------------- *)
\* D11: a failed registration left match-all subtrees behind which now block a different
\* match-all at the same position.
GhostBlocks(m, r) ==
  \E q \in 1..Len(H) : /\ ~H[q].ok /\ H[q].m = m /\ H[q].r.gram
     /\ \E j \in 1..(Len(H[q].r.segs) - 1), k \in 1..(Len(r.segs) - 1) :
           /\ j = k /\ H[q].r.segs[j].k = "A" /\ r.segs[k].k = "A"
           /\ Texts(H[q].r.segs, j - 1) = Texts(r.segs, k - 1)
           /\ H[q].r.segs[j].t # r.segs[k].t
AddVerdict(e) ==
  LET wf == P_WellFormed(H, e.m, e.r) IN
  IF e.skipped THEN "ok"          \* a multi-method call stopped at an earlier method: never attempted
  ELSE IF e.accepted = wf THEN "ok"
  ELSE IF "D11" \in Dev /\ wf /\ ~e.accepted /\ GhostBlocks(e.m, e.r) THEN "D11"
  ELSE "accept"
TAddRoute == /\ IsEv("AddRoute")
             /\ LET e == Tr[l] IN
                /\ Verdict(AddVerdict(e))
                /\ H' = Append(H, [m |-> e.m, r |-> e.r, ok |-> e.accepted, hdr |-> <<>>, call |-> e.call, ck |-> e.ck])
                /\ taint' = (taint \/ (e.accepted /\ ~e.skipped /\ ~P_WellFormed(H, e.m, e.r)))
                /\ UNCHANGED names

(* ---------------------------- Headers -------------------------------- *)
THeaders == /\ IsEv("Headers")
            /\ LET e == Tr[l] IN
               H' = [i \in 1..Len(H) |-> IF H[i].call = e.call THEN [H[i] EXCEPT !.hdr = e.hdr] ELSE H[i]]
            /\ UNCHANGED <<names, taint>>

(* ---------------------------- Serve ---------------------------------- *)
\* D11 ghosts: a registration that failed kept the subtrees of the segments before the failing one
SelfFailPos(r) ==
  LET n == Len(r.segs)
      badAt(j) == \/ r.segs[j].opt \/ (r.segs[j].k = "S" /\ r.segs[j].t = "") \/ r.segs[j].bad
                  \/ ~Distinct(r.segs[j].binds)
                  \/ \E i \in 1..(j - 1) : Range(r.segs[i].binds) \cap Range(r.segs[j].binds) # {}
                  \/ (r.segs[j].k = "A" /\ \E i \in 1..(j - 1) : r.segs[i].k = "A")
      B == { j \in 1..(n - 1) : badAt(j) }
  IN IF B = {} THEN n ELSE Min(B)
Ghosts(m) == LET F == { q \in 1..Len(H) : ~H[q].ok /\ H[q].m = m /\ H[q].r.gram /\ Len(H[q].r.segs) > 0 }
             IN [q \in F |-> SelfFailPos(H[q].r) - 1]
WinnerWithG(m, p, orc, Elig(_, _), G) ==
  LET W == UNION { LET r == H[i].r IN
                     (IF Elig(i, FALSE) THEN { [reg |-> i, short |-> FALSE, c |-> c] : c \in Aligns(LongSegs(r), 1, p, 1, orc) } ELSE {})
                     \cup (IF IsOptional(r) /\ Elig(i, TRUE)
                           THEN { [reg |-> i, short |-> TRUE, c |-> c] : c \in Aligns(ShortSegs(r), 1, p, 1, orc) } ELSE {})
                 : i \in Acc(H, m) }
      K(w) == KeyG(H, m, w.reg, FormSegs(H, w), w.c, G)
  IN IF W = {} THEN NoWitness ELSE CHOOSE w \in W : \A v \in W : v = w \/ Before(K(w), w, K(v), v)
WinnerWith(m, p, orc, Elig(_, _)) == WinnerWithG(m, p, orc, Elig, NoGhosts)
\* registrations of the same Flame-level call (Routes / Any / Get under AutoHead) share `call`;
\* the handle returned to the user holds the leaf of the LAST method only (D15)
\* (D15 concerns Routes() only: the handle of Any() holds the leaves of all nine methods)
LastOfCall(i) == H[i].ck # "routes" \/ \A q \in 1..Len(H) : H[q].call = H[i].call => q <= i

ServeVerdict(e) ==
  LET orc == [adm |-> SeqToSet(e.adm), splits |-> SeqToSet(e.splits)]
      horc == SeqToSet(e.hadm)
      ElP(i, s) == Eligible(H[i].hdr, e.h, horc)
      w == WinnerWith(e.m, e.p, orc, ElP)
      good(v) == /\ v.reg = e.reg
                 /\ (v.reg # 0 => /\ P_ParamsOK(H, v, e.p, e.dec, e.decok, e.params, orc)
                                  /\ (e.rbok => (IF v.short THEN e.rb_without ELSE e.rb_with) = P_Build(H[v.reg].r, e.params, ~v.short)))
      sane == ~e.panicked /\ e.chains = 1
      \* D6: the implicit short-form leaf is never gated
      w6 == WinnerWith(e.m, e.p, orc, LAMBDA i, s : s \/ ElP(i, s))
      \* D15: only the last method of a multi-method call is gated
      w15 == WinnerWith(e.m, e.p, orc, LAMBDA i, s : ~LastOfCall(i) \/ ElP(i, s))
      \* D7 / D16: the shortcut table answers a raw path that equals a route text
      fastHit == { i \in Acc(H, e.m) : /\ RouteText(H[i].r) = e.raw /\ H[i].hdr = <<>>
                                       /\ \A j \in 1..Len(H[i].r.segs) : H[i].r.segs[j].k = "S" }
      \* D3: an expression with its own capture group shifts the sub-match indexes
      \* (the route layer P dispatches to - or would dispatch to under another open finding - contains such an
      \* expression; the real outcome then is anything)
      grpOf(v) == v.reg # 0 /\ \E j \in 1..Len(H[v.reg].r.segs) : H[v.reg].r.segs[j].k = "R" /\ H[v.reg].r.segs[j].grp
      \* D5 (inverse law only): a bind-parameter list renders only its first name
      multi(v) == v.reg # 0 /\ \E j \in 1..Len(H[v.reg].r.segs) : \E q \in 1..Len(H[v.reg].r.segs[j].els) : H[v.reg].r.segs[j].els[q].g = 2
      goodNoRb(v) == /\ v.reg = e.reg /\ v.reg # 0 /\ P_ParamsOK(H, v, e.p, e.dec, e.decok, e.params, orc)
      w11 == WinnerWithG(e.m, e.p, orc, ElP, Ghosts(e.m))
      \* an open finding may coincide with D5 / D3 on the same request
      goodX(v) == IF "D5" \in Dev /\ multi(v) THEN goodNoRb(v) ELSE good(v)
  IN IF e.oskip THEN (IF sane THEN "ok" ELSE "bad")   \* input beyond the oracle's reach: totality only (C07)
     ELSE IF sane /\ good(w) THEN "ok"
     ELSE IF ~sane THEN "bad"
     ELSE IF "D5" \in Dev /\ multi(w) /\ goodNoRb(w) THEN "D5"
     ELSE IF "D6" \in Dev /\ w6 # w /\ w6.short /\ goodX(w6) THEN "D6"
     ELSE IF "D15" \in Dev /\ w15 # w /\ goodX(w15) THEN "D15"
     ELSE IF "D7" \in Dev /\ e.reg \in fastHit /\ IsOptional(H[e.reg].r) THEN "D7"
     ELSE IF "D16" \in Dev /\ e.reg \in fastHit /\ ~IsOptional(H[e.reg].r) /\ w.reg # 0 /\ w.reg < e.reg
                           /\ IsOptional(H[w.reg].r) /\ ~w.short THEN "D16"
     ELSE IF "D11" \in Dev /\ DOMAIN Ghosts(e.m) # {} /\ w11 # w /\ goodX(w11) THEN "D11"
     ELSE IF "D3" \in Dev /\ (grpOf(w) \/ ("D6" \in Dev /\ grpOf(w6)) \/ ("D15" \in Dev /\ grpOf(w15))
                           \/ ("D11" \in Dev /\ DOMAIN Ghosts(e.m) # {} /\ grpOf(w11))) THEN "D3"
     ELSE "bad"
TServe == /\ IsEv("Serve") /\ Verdict(IF taint THEN "tainted" ELSE ServeVerdict(Tr[l])) /\ UNCHANGED <<H, names, taint>>

(* ---------------------------- Name / URLPath ------------------------- *)
TName == /\ IsEv("Name")
         /\ LET e == Tr[l]
                mustPanic == e.name = "" \/ e.name \in names
            IN /\ Verdict(IF taint THEN "tainted" ELSE IF e.panicked = mustPanic THEN "ok" ELSE "bad")
               /\ names' = IF e.panicked THEN names ELSE names \cup {e.name}
         /\ UNCHANGED <<H, taint>>
TURLPath == /\ IsEv("URLPath")
            /\ LET e == Tr[l]
                   r == H[e.reg].r
                   vals == PairsToFun(e.vals)
                   multi == \E j \in 1..Len(r.segs) : \E q \in 1..Len(r.segs[j].els) : r.segs[j].els[q].g = 2
                   exp == P_Build(r, vals, e.withopt)
               IN Verdict(IF taint THEN "tainted" ELSE IF e.known
                          THEN (IF ~e.panicked /\ e.out = exp THEN "ok"
                                ELSE IF "D5" \in Dev /\ multi /\ ~e.panicked THEN "D5" ELSE "bad")
                          ELSE (IF e.panicked THEN "ok" ELSE "bad"))      \* unknown name must panic
            /\ UNCHANGED <<H, names, taint>>

TNext == TReset \/ TAddRoute \/ THeaders \/ TServe \/ TName \/ TURLPath
TSpec == TInit /\ [][TNext]_tvars
====
