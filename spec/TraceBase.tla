---- MODULE TraceBase ----
(***************************************************************************)
(* Shared plumbing of the trace specifications.                            *)
(*  - Tr: the ndjson trace recorded from the real code                     *)
(*  - l : position in Tr; one event is consumed per step                   *)
(*  - Verdict(l, v): every event is judged by layer P; v = "ok", the id of *)
(*    an open known finding whose trigger class excuses it, or "bad".      *)
(*    Non-ok verdicts are printed as <<"FAIL", line, v>> and the walk      *)
(*    continues, so one rejected event does not hide later ones.           *)
(*  - acceptance: high-water mark of l (TLC register 1) must reach the end *)
(*    of the trace, else the trace contains an event no action can         *)
(*    consume (malformed trace / gap in the trace spec => no verdict).     *)
(* Run with -workers 1, CHECK_DEADLOCK FALSE, CONSTRAINT HW,               *)
(* POSTCONDITION Accepted.                                                 *)
(***************************************************************************)
EXTENDS Naturals, Sequences, TLC, Json
CONSTANT TraceFile
Tr == ndJsonDeserialize(TraceFile)
VARIABLE l

LInit == l = 1 /\ TLCSet(1, 1)
IsEv(e) == l <= Len(Tr) /\ Tr[l].ev = e /\ l' = l + 1
Verdict(v) == IF v = "ok" THEN TRUE ELSE PrintT(<<"FAIL", l, v>>)
HW == TLCSet(1, IF l > TLCGet(1) THEN l ELSE TLCGet(1))
Accepted == IF TLCGet(1) = Len(Tr) + 1 THEN PrintT(<<"TRACE_CONSUMED", Len(Tr)>>)
            ELSE Print(<<"REJECTED_AT", TLCGet(1)>>, FALSE)
====
