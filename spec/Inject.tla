---- MODULE Inject ----
(***************************************************************************)
(* Model of inject.injector: Map / MapTo / Set / Value / Invoke over up to *)
(* three scopes.  Layer I is Value() as the code computes it (exact key,   *)
(* then any implementing key of the same scope - Go map order, hence a     *)
(* SET of possible results -, then the parent).  Layer P is InjectP.       *)
(* TLC enumerates every registration history up to MaxOps and checks for   *)
(* every (scope, type) that the code-shaped search can only return values  *)
(* the property accepts, and that both resolve / fail on the same types.   *)
(***************************************************************************)
EXTENDS InjectP, Json
CONSTANTS MaxOps, MaxId, EmitCases,
          Dev   \* "PARENT1ST": negative control - ask the parent before same-scope implementors

Scopes == 1..3
VARIABLES vals, parent, hist
vars == <<vals, parent, hist>>

Empty == [k \in Keys |-> None]
Init == /\ vals = [s \in Scopes |-> Empty]
        /\ parent \in { <<0, 1, 1>>, <<0, 1, 2>> }     \* scope 3: sibling request or nested scope
        /\ hist = <<>>

\* which concrete values may be stored under which key
Storable(k) == IF k \in Concrete THEN {k}
               ELSE IF k = "RCH" THEN {"CH"}
               ELSE { c \in Concrete : <<c, k>> \in Implements }
Reg(op, s, k, ct, id) ==
  /\ Len(hist) < MaxOps
  /\ vals' = [vals EXCEPT ![s][k] = Val(ct, id)]
  /\ hist' = Append(hist, [op |-> op, s |-> s, k |-> k, ct |-> ct, id |-> id])
  /\ UNCHANGED parent
\* a lookup between registrations: reads only (in the model) - the real Value()/Invoke() must not change what
\* later lookups see either
Lookup(s, t) ==
  /\ Len(hist) < MaxOps /\ Len(hist) > 0 /\ hist[Len(hist)].op # "Lookup"
  /\ hist' = Append(hist, [op |-> "Lookup", s |-> s, k |-> t, ct |-> "", id |-> 0])
  /\ UNCHANGED <<vals, parent>>
Next == \/ \E s \in Scopes, id \in 1..MaxId :
          \/ \E c \in Concrete : Reg("Map", s, c, c, id)
          \/ \E i \in Ifaces : \E c \in Storable(i) : Reg("MapTo", s, i, c, id)
          \/ \E c \in Storable("RCH") : Reg("Set", s, "RCH", c, id)
        \/ \E s \in Scopes, t \in {"T1", "I1", "I2", "RCH", "E0"} : Lookup(s, t)
Spec == Init /\ [][Next]_vars

(* layer I: Value() *)
RECURSIVE I_Values(_, _)
I_Values(s, t) ==
  IF s = 0 THEN {}
  ELSE IF vals[s][t] # None THEN {vals[s][t]}
  ELSE LET impl == IF t \in Ifaces THEN { vals[s][k] : k \in { k \in Keys : vals[s][k] # None /\ <<k, t>> \in Implements } } ELSE {}
           up == I_Values(parent[s], t)
       IN IF "PARENT1ST" \in Dev THEN (IF up # {} THEN up ELSE impl)
          ELSE IF impl # {} THEN impl ELSE up

ParamTypes == Keys
ValueConforms == \A s \in Scopes, t \in ParamTypes : I_Values(s, t) = Acceptable(vals, parent, s, t)
\* derived facts the property text states, checked on every reachable table
NearestWins == \A s \in Scopes, t \in ParamTypes :
                  vals[s][t] # None => Acceptable(vals, parent, s, t) = {vals[s][t]}
SiblingIsolation == parent[3] = 1 =>
                       \A t \in ParamTypes : Acceptable(vals, parent, 3, t) \subseteq
                                               (ScopeOffers(vals[3], t) \cup ScopeOffers(vals[1], t))
LastWins == \A i \in { i \in 1..Len(hist) : hist[i].op # "Lookup" } :
               (\A j \in (i + 1)..Len(hist) : ~(hist[j].op # "Lookup" /\ hist[j].s = hist[i].s /\ hist[j].k = hist[i].k))
                  => vals[hist[i].s][hist[i].k] = Val(hist[i].ct, hist[i].id)

EmitCase == (EmitCases /\ Len(hist) = MaxOps) => PrintT("CASE " \o ToJson([parent |-> parent, hist |-> hist]))
====
