---- MODULE InjectP ----
(***************************************************************************)
(* Property layer of dependency injection (C04), inject/inject.go.         *)
(*                                                                         *)
(* Types: a menu of real Go types of the harness, mirrored as strings.     *)
(*   concrete  T1 (struct), PT1 (pointer to T1), T2 (struct), N1 (named string),     *)
(*             CH (chan int)                                               *)
(*   RCH       <-chan int: only usable as a key through Set()              *)
(*   interface I1 {M1}, I2 {M2}, I3 {M1, M2}, E0 {} (implemented by all)   *)
(* A value is [ct, id]: the concrete type it was built from and an id.     *)
(* vals[s][k] is the value registered in scope s under key type k, or None.*)
(* parent[s] is the enclosing scope (0 = none).                            *)
(***************************************************************************)
EXTENDS Naturals, Sequences, FiniteSets, TLC

Concrete == {"T1", "PT1", "T2", "N1", "CH"}
Ifaces == {"I1", "I2", "I3", "E0"}
\* "CTX" = flamego.Context, which the request context maps to itself and a handler may re-map (trace validation only)
\* "RWI" = http.ResponseWriter and "REQ" = *http.Request, the other services every request scope starts with
\* "LOG" = *log.Logger, which the application scope starts with (and an application may register its own afterwards)
Keys == Concrete \cup Ifaces \cup {"RCH", "CTX", "RWI", "REQ", "LOG"}
\* <<key type, interface>>: the key's method set covers the interface
Implements == { <<"T1", "I1">>, <<"PT1", "I1">>, <<"I1", "I1">>, <<"I3", "I1">>,
                <<"T1", "I2">>, <<"PT1", "I2">>, <<"T2", "I2">>, <<"N1", "I2">>, <<"I2", "I2">>, <<"I3", "I2">>,
                <<"T1", "I3">>, <<"PT1", "I3">>, <<"I3", "I3">> }
              \cup { <<k, "E0">> : k \in Concrete \cup {"I1", "I2", "I3", "E0", "RCH", "CTX"} }   \* the empty method set
None == [ct |-> "none", id |-> 0]
Val(ct, id) == [ct |-> ct, id |-> id]

\* candidates a single scope offers for type t: the exact registration, else (interfaces only) the
\* values registered in that scope under implementing types
ScopeOffers(vs, t) ==
  IF vs[t] # None THEN {vs[t]}
  ELSE IF t \in Ifaces THEN { vs[k] : k \in { k \in Keys : vs[k] # None /\ <<k, t>> \in Implements } }
  ELSE {}
\* C04: nearest scope first
RECURSIVE Acceptable(_, _, _, _)
Acceptable(vals, parent, s, t) ==
  IF s = 0 THEN {}
  ELSE LET o == ScopeOffers(vals[s], t) IN IF o # {} THEN o ELSE Acceptable(vals, parent, parent[s], t)

\* an invocation record r = [err, errtype, calls, args, rets, bodyrets]
P_InvokeOK(vals, parent, s, sig, r) ==
  LET missing == { i \in 1..Len(sig) : Acceptable(vals, parent, s, sig[i]) = {} }
  IN IF missing # {}
     THEN /\ r.err /\ r.calls = 0
          /\ r.errtype \in { sig[i] : i \in missing }        \* the error names an unresolvable type (any of them: C04 does not say which)
     ELSE /\ ~r.err /\ r.calls = 1 /\ Len(r.args) = Len(sig)
          /\ \A i \in 1..Len(sig) : r.args[i] \in Acceptable(vals, parent, s, sig[i])
          /\ r.rets = r.bodyrets
\* Apply: every tagged settable field receives an acceptable value; if one cannot be resolved the call reports an error
\* naming such a type (what the struct holds after a FAILED Apply is not specified); untagged / unexported fields keep
\* their values either way
P_ApplyOK(vals, parent, s, fields, r) ==
  LET missing == { i \in 1..Len(fields) : Acceptable(vals, parent, s, fields[i]) = {} }
  IN /\ r.err = (missing # {})
     /\ (missing # {} => r.errtype \in { fields[i] : i \in missing })
     /\ (missing = {} => \A i \in 1..Len(fields) : r.got[i] \in Acceptable(vals, parent, s, fields[i]))
     /\ r.untouched
====
