---- MODULE StaticTrace ----
(***************************************************************************)
(* Trace validation for C16: static{method, segs, prefix, kind, id, loc,   *)
(* written, next_ran} recorded from the real Static middleware over the    *)
(* directory tree of StaticP.                                              *)
(***************************************************************************)
EXTENDS StaticP, TraceBase
CONSTANT Dev
tvars == <<l>>
TInit == LInit
TReset == IsEv("reset")
TStatic == /\ IsEv("static")
           /\ LET e == Tr[l]
                  p == P_Static(e.method, e.segs, e.prefix)
                  ok == /\ ~e.panicked
                        /\ e.kind = p.kind /\ e.id = p.id
                        /\ (p.kind = "redirect" => e.loc = p.loc)
                        \* a conditional re-request with the ETag just received: not modified, no body
                        /\ (e.inm_status # 0 => e.inm_status = 304 /\ e.inm_body = 0)
                        \* a revalidation by date (If-Modified-Since in the future): a file may be answered 304 without a body
                        \* or sent again; everything else is answered as without the header
                        /\ e.ims_kind = (IF p.kind = "file" /\ e.ims_kind = "notmodified" THEN "notmodified" ELSE p.kind)
                        /\ (p.kind = "silent" => ~e.written /\ e.next_ran /\ e.leaked = 0)   \* writes nothing (no status, no body,
                                                                                             \* no header), the rest of the chain runs
              IN Verdict(IF ok THEN "ok" ELSE "bad")
TNext == TReset \/ TStatic
TSpec == TInit /\ [][TNext]_tvars
====
