---- MODULE RWTrace ----
(***************************************************************************)
(* Trace validation for C13: events recorded from the real                 *)
(* flamego.NewResponseWriter(method, spy) are judged by layer P of RW.     *)
(*   reset{method}                      a fresh writer                     *)
(*   op{o, status, size, written, log}  one operation, the observers read  *)
(*                                      after it, and the spy's whole log  *)
(* The specification state follows the *recorded* observations; every      *)
(* clause of P is evaluated at every step.                                 *)
(***************************************************************************)
EXTENDS RW, TraceBase
CONSTANT Dev            \* open known findings (none for C13)
VARIABLES hk            \* hooks registered when the first status was triggered
tvars == <<vars, l, hk>>

TInit == /\ method = "GET" /\ status = 0 /\ size = 0 /\ hooks = <<>> /\ log = <<>> /\ hist = <<>>
         /\ hk = <<>> /\ flusher = TRUE /\ LInit

TReset == /\ IsEv("reset")
          /\ method' = Tr[l].method /\ status' = 0 /\ size' = 0 /\ hooks' = <<>>
          /\ log' = <<>> /\ hist' = <<>> /\ hk' = <<>> /\ flusher' = flusher

IsPrefix(a, b) == Len(a) <= Len(b) /\ SubSeq(b, 1, Len(a)) = a

P_Step(e, hk1) ==
  LET o == e.o IN
  \* ---- state clauses on the recorded observations ----
  /\ e.written = (e.status # 0)
  /\ P_All(method, e.status, e.size, hk1, e.log)
  \* ---- step clauses ----
  /\ IsPrefix(log, e.log)                      \* what was sent stays sent
  /\ (status # 0 => e.status = status)         \* the first status sticks
  /\ ((status = 0 /\ o.op = "WriteHeader") => e.status = o.code)
  /\ ((status = 0 /\ o.op \in {"Write", "Flush"}) => e.status = 200)
  /\ ((status = 0 /\ o.op \in {"Before", "Push"}) => e.status = 0)

TOp == /\ IsEv("op")
       /\ LET e == Tr[l]
              trig == HdrIdx(log) = {} /\ HdrIdx(e.log) # {}
              hk1 == IF trig THEN hooks ELSE hk
          IN /\ hooks' = IF e.o.op = "Before" THEN Append(hooks, e.o.hook) ELSE hooks
             /\ hk' = hk1
             /\ status' = e.status /\ size' = e.size /\ log' = e.log
             /\ method' = method /\ hist' = hist /\ flusher' = flusher
             /\ Verdict(IF P_Step(e, hk1) THEN "ok" ELSE "bad")
TNext == TReset \/ TOp
TSpec == TInit /\ [][TNext]_tvars
====
