---- MODULE Registrar ----
(***************************************************************************)
(* TLC enumerates every well-bracketed registration program up to MaxLen   *)
(* instructions over a small universe and checks Exec = Flatten.           *)
(***************************************************************************)
EXTENDS RegistrarP, Json
CONSTANTS MaxLen, MaxDepth, EmitCases
VARIABLES prog, depth, nh
vars == <<prog, depth, nh>>
\* handler ids are allocated in order of appearance: nh = ids used so far
Hs(k) == [i \in 1..k |-> nh + i]
InsU ==    { [op |-> "group", path |-> pa, hs |-> Hs(k)] : pa \in {"/g", "/h"}, k \in 0..1 }
      \cup { [op |-> "route", ms |-> ms, path |-> pa, hs |-> Hs(1)] : ms \in {<<"POST">>, <<"GET", "POST">>}, pa \in {"/a", "/b"} }
      \cup { [op |-> "any", path |-> "/a", hs |-> Hs(1)] }
      \cup { [op |-> "get", path |-> pa, hs |-> Hs(1)] : pa \in {"/a", "/b"} }
      \cup { [op |-> "combo", path |-> "/c", hs |-> Hs(1), calls |-> cs] :
               cs \in { << [m |-> "GET", hs |-> <<nh + 2>>] >>,
                        << [m |-> "GET", hs |-> <<nh + 2>>], [m |-> "POST", hs |-> <<nh + 3>>] >>,
                        << [m |-> "POST", hs |-> <<nh + 2>>], [m |-> "POST", hs |-> <<nh + 3>>] >> } }
      \cup { [op |-> "autohead", v |-> b] : b \in BOOLEAN }
      \cup { [op |-> "end"] }
Used(ins) == CASE ins.op \in {"group", "route", "any", "get"} -> Len(ins.hs)
               [] ins.op = "combo" -> 1 + Len(ins.calls)
               [] OTHER -> 0
Init == prog = <<>> /\ depth = 0 /\ nh = 0
Next == /\ Len(prog) < MaxLen
        /\ \E ins \in InsU :
             /\ (ins.op = "end" => depth > 0)
             /\ (ins.op = "group" => depth < MaxDepth)
             /\ prog' = Append(prog, ins)
             /\ depth' = depth + (IF ins.op = "group" THEN 1 ELSE 0) - (IF ins.op = "end" THEN 1 ELSE 0)
             /\ nh' = nh + Used(ins)
Spec == Init /\ [][Next]_vars
\* every prefix that can still be closed is a program; compare on the closed ones
Closed == depth = 0
ExecIsFlatten == I_Exec(prog) = P_Flatten(prog)
EmitCase == (EmitCases /\ Closed /\ Len(prog) > 0 /\ (Len(prog) = MaxLen \/ P_Panics(prog))) =>
               PrintT("CASE " \o ToJson([prog |-> prog]))
====
