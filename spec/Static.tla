---- MODULE Static ----
(***************************************************************************)
(* C16, layer I: static.go as written - method filter, string prefix test  *)
(* followed by the boundary test, "/" -> ".", trailing slashes trimmed,    *)
(* http.Dir.Open (= Clean inside the root), directory redirect computed    *)
(* from path.Clean(URL.Path), index lookup - against StaticP.              *)
(* Strings are sequences of segments; the one character-level fact the     *)
(* code depends on (strings.HasPrefix on a look-alike such as "/pfxx") is  *)
(* the table StrPrefix.  TLC enumerates all paths up to MaxSegs.           *)
(***************************************************************************)
EXTENDS StaticP, Json
CONSTANTS MaxSegs, EmitCases,
          Dev    \* "NOBOUNDARY": negative control - the segment-boundary test after the prefix is missing
\* "pfxf" / "pfxd": the prefix followed by exactly the one-character name of an entry of the root
Names == {"f", "d", "e", "x", "g", "index", "pfx", "pfxx", "pfxf", "pfxd", "secret", "..", ".", ""}
Methods == {"GET", "HEAD", "POST"}
Prefixes == { <<>>, <<"pfx">> }
VARIABLES method, segs, prefix
vars == <<method, segs, prefix>>
Init == method \in Methods /\ segs = <<>> /\ prefix \in Prefixes
Next == /\ Len(segs) < MaxSegs /\ \E n \in Names : segs' = Append(segs, n)
        /\ UNCHANGED <<method, prefix>>
Spec == Init /\ [][Next]_vars

\* strings.HasPrefix(URL.Path, "/pfx"): the first segment merely has to START with the prefix text
Tail3(seg) == CASE seg = "pfxf" -> "f" [] seg = "pfxd" -> "d" [] seg = "pfxx" -> "x" [] OTHER -> ""
StrPrefix(seg) == seg \in {"pfx", "pfxx", "pfxf", "pfxd"}
I_Static ==
  IF method \notin {"GET", "HEAD"} THEN Silent
  ELSE LET strip ==
             IF prefix = <<>> THEN [ok |-> TRUE, rest |-> segs]
             ELSE IF Len(segs) = 0 \/ ~StrPrefix(segs[1]) THEN [ok |-> FALSE, rest |-> <<>>]
             \* file = file[len(prefix):]; if file != "" && file[0] != '/' { return }
             ELSE IF segs[1] # "pfx" /\ "NOBOUNDARY" \notin Dev THEN [ok |-> FALSE, rest |-> <<>>]
             \* without the boundary test the remainder of the look-alike becomes the first name of the file path
             ELSE [ok |-> TRUE, rest |-> (IF segs[1] = "pfx" THEN <<>> ELSE <<Tail3(segs[1])>>) \o SubSeq(segs, 2, Len(segs))]
       IN IF ~strip.ok THEN Silent
          ELSE LET tgt == Resolve(strip.rest, 1, <<>>)              \* http.Dir.Open: Clean("/" + name) below the root
                   what == Lookup(tgt)
               IN IF what = "none" THEN Silent
                  ELSE IF what # "dir" THEN File(what)
                  ELSE IF ~Slashed(segs) /\ Resolve(segs, 1, <<>>) # <<>> THEN Redirect(Resolve(segs, 1, <<>>))
                  ELSE LET ix == Lookup(Append(tgt, "index")) IN IF ix \in {"none", "dir"} THEN Silent ELSE File(ix)
Conforms == I_Static = P_Static(method, segs, prefix)
\* what is sent is always the content of a regular file INSIDE the directory
NeverOutside == I_Static.kind = "file" => I_Static.id \in {"F", "DI", "G", "PF"}
EmitCase == (EmitCases /\ Len(segs) > 0) => PrintT("CASE " \o ToJson([method |-> method, segs |-> segs, prefix |-> prefix]))
====
