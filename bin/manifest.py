#!/usr/bin/env python3
"""Regenerates MANIFEST.json from the table below (run after claiming / unclaiming a property)."""
import json, os, subprocess
V = os.path.dirname(os.path.dirname(os.path.abspath(__file__)))
props = [json.loads(l) for l in open(os.path.join(V, "properties.jsonl"))]

LEVEL = "model_checking"
CLAIMS = {
 "C13": dict(
   technique="TLA+ spec RW.tla model-checked by TLC (layer I |= layer P, all op sequences to the bound); TLC-generated behaviours replayed on NewResponseWriter; recorded traces validated by TLC against RWTrace.tla",
   text="TLC checks exhaustively (all operation sequences up to depth 4 quick / 6 thorough, 3 methods, short writes) that the implementation-shaped model satisfies the five clauses of C13; every explored behaviour is executed on the real NewResponseWriter over a spy and the recorded step-by-step observations (Status/Size/Written + everything that reached the underlying writer) are validated by TLC against the property layer, as are random histories of up to 50 operations. Right level: the object is a small state machine, so bounded-exhaustive model checking plus trace conformance covers every transition combination.",
   note="Bounded: depth <= 6 exhaustively, random beyond. Trusted: TLC, the Go harness' spy writer, encoding/json. Hooks in the universe only set headers / read Status (a hook that writes re-enters sync.Once and deadlocks: outside the property).",
   ref="4 C13"),
}
NA = {}

def main():
    sha = subprocess.run(["git", "-C", "/repo", "log", "--format=%h %s"], capture_output=True, text=True).stdout.splitlines()
    hooks_commits = [l.split()[0] for l in sha if l.split(" ", 1)[1].startswith("verif:")]
    m = {"version": 1, "setup_cmd": "sh bin/setup.sh",
         "hooks": {"guard": "verif", "enable": "go build -tags verif (harness build; hook files are add-only and diagnostic)",
                   "baseline_off_cmd": "cd /repo && go test -vet=off -count=1 ./...",
                   "source_commits": hooks_commits, "add_only": True},
         "engines": [{"name": "tlc+harness", "path": "bin/check.py", "serves_properties": sorted(CLAIMS),
                      "kind_free_text": "explicit TLA+ specifications (spec/*.tla) model-checked by TLC; TLC-generated behaviours replayed on the real code by the Go harness (harness/); traces recorded from the real code validated by TLC against the property layer (spec/*Trace.tla)"}],
         "checks": [], "not_applicable": [], "notes": "All properties are decided by the TLA+ specification suite + conformance (DESIGN.md). Exit 2 = infrastructure problem, no verdict."}
    for p in props:
        i = p["id"]
        if i in CLAIMS:
            c = CLAIMS[i]
            m["checks"].append({"property_id": i, "quick_cmd": "python3 bin/check.py %s --tier quick" % i,
                                "thorough_cmd": "python3 bin/check.py %s --tier thorough" % i,
                                "evidence_file": "evidence/%s.json" % i,
                                "replay_cmd_template": "python3 bin/check.py %s --replay {path}" % i,
                                "engine": "tlc+harness", "technique": c["technique"],
                                "level_claimed": {"category": LEVEL, "text": c["text"], "design_ref": c["ref"]},
                                "level_note": c["note"]})
        else:
            m["not_applicable"].append({"property_id": i, "reason": NA.get(i, "check not built yet (work in progress, DESIGN.md section 11); not claimed")})
    json.dump(m, open(os.path.join(V, "MANIFEST.json"), "w"), indent=1)
    import jsonschema
    jsonschema.validate(m, json.load(open("/root/.vp/MANIFEST.schema.json")))
    print("MANIFEST ok:", len(m["checks"]), "claimed")
main()
