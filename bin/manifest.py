#!/usr/bin/env python3
"""Regenerates MANIFEST.json from the table below (run after claiming / unclaiming a property)."""
import json, os, subprocess
V = os.path.dirname(os.path.dirname(os.path.abspath(__file__)))
props = [json.loads(l) for l in open(os.path.join(V, "properties.jsonl"))]

LEVEL = "model_checking"
RT = "TLA+ RouteTree.tla (explicit-tree layer I vs declarative winner/params/well-formedness/URL layer P over the registration history) model-checked by TLC per family (RouteTreeMC.tla); every explored history replayed on route.Tree and flamego.Flame; recorded AddRoute/Headers/Serve/URLPath events validated by TLC against RouteTreeTrace.tla with oracle facts (independent splitter / percent decoder)"
RT_NOTE = "Bounded exhaustiveness of the TLC families (routes <= 2-3 segments, <= 2-3 registrations, paths <= 4 segments, <= 2 Headers calls); random route sets beyond. Trusted: TLC, Go regexp, the harness oracle, net/http(test). Open known findings are excused only inside the trigger class defined in RouteTreeTrace.tla (known_findings.json)."
CH = "TLA+ Chain.tla (cursor-level call-stack model) checked by TLC against the event monitor of ChainP.tla; TLC-generated chains replayed on a real Flame with instrumented handlers; recorded enter/exit/next/write/cancel/panic events validated by TLC with the same monitor (ChainTrace.tla)"
CH_NOTE = "Bounded: chains of 2-3 handlers + action, programs of <= 2 operations exhaustively; random chains to depth 8. Trusted: TLC, the instrumented closures, reflect, net/http."
def T(text): return text
CLAIMS = {
 "C01": dict(technique=RT, ref="4 C01", note=RT_NOTE,
   text="TLC proves on the bounded universe that the code-shaped insertion + depth-first search always yields the declaratively defined winner (rank, FIFO among equals, fewest captured, final match-all last, fall-back after a deeper miss) for every registration history and every path; all explored histories are executed on the real tree and Flame and compared request by request; random large route sets are judged event by event by TLC. Model checking + conformance is the right level because the winner is a function of the whole configuration."),
 "C02": dict(technique=RT, ref="4 C02", note=RT_NOTE,
   text="Every dispatched request's parameters (from Tree.Match and from Context.Params) are validated by TLC against the capture relation of layer P: placeholder = one decoded segment, match-all = the decoded span, regex binds = some valid split computed by an independent splitter, route = canonical text, and rebuilding the URL from them reproduces the path."),
 "C07": dict(technique=RT, ref="4 C07", note=RT_NOTE,
   text="Hostile requests (arbitrary byte paths, unknown/odd method tokens, very long and very deep paths, each issued twice) are served by a real Flame under recover(); every Serve event must show no panic, exactly one chain (counted by the first middleware) and the outcome layer P computes from the history, so repeated requests are judged by the same function."),
 "C08": dict(technique=RT, ref="4 C08", note=RT_NOTE,
   text="TLC checks accepted <=> well-formed for every registration history over a universe containing each ill-formedness kind (and that the tree model with atomic failure agrees); every history is replayed through route.AddRoute and Flame.Route and each acceptance decision is judged by TLC against the declarative well-formedness predicate; accepted routes are then requested and judged by C01's winner definition."),
 "C09": dict(technique=RT, ref="4 C09", note=RT_NOTE,
   text="TLC explores histories of registrations (two methods, single- and multi-method calls, optional routes) and Headers() calls and checks for all requests x header values that the per-leaf gates of the model equal eligibility defined on the route; the same histories and random ones run on a real Flame and every outcome is judged by TLC."),
 "C10": dict(technique=RT, ref="4 C10", note=RT_NOTE,
   text="The model contains the static shortcut table (insert on add, evict on Headers, literal raw-path lookup); TLC checks that serving through it equals the declarative tree outcome for every history and every raw path incl. doubled leading slashes and '?'-literal segments; real Flame outcomes are judged against the shortcut-free layer P."),
 "C12": dict(technique=RT, ref="4 C12", note=RT_NOTE,
   text="URLPath results for random value assignments (braces, other bind names, slashes, empty, bytes), withOptional, unknown/empty/duplicate names are judged by TLC against the element-wise P_Build; the inverse law is checked on the model (RoundTrip invariant) and on every dispatched real request."),
 "C03": dict(technique=CH, ref="4 C03", note=CH_NOTE,
   text="TLC checks every chain of handler programs in the bound: the cursor-level model's event sequences are all accepted by the monitor stating order / at-most-once / nesting / auto-advance iff unwritten and uncancelled; each chain is run on the real Flame in varying splits (middleware / group / route / action / not-found) and the recorded events are validated by the same monitor."),
 "C14": dict(technique=CH, ref="4 C14", note=CH_NOTE,
   text="The return table is part of the monitor (Render); TLC enumerates every return shape x empty/non-empty at every position with and without Next(), the harness returns real values of those Go types through the reflective path, the built-in fast path and a user FastInvoker, and TLC validates status, body chunks and whether the chain continued."),
 "C15": dict(technique=CH, ref="4 C15", note=CH_NOTE,
   text="Chains with the real flamego.Recovery() at every position, panics (5 value kinds, unresolvable handler) at every later position/phase, three environments, requests repeated on the same instance: TLC validates containment, 500-iff-unsent, detail only in development, normal unwinding of outer middleware, and the follow-up request."),
 "C04": dict(technique="TLA+ Inject.tla (code-shaped Value() vs declarative nearest-scope relation InjectP.tla) model-checked by TLC over all registration histories; histories replayed on real injector chains and the Flame->context chain; invoke/apply events validated by TLC (InjectTrace.tla)", ref="4 C04",
   note="Bounded: histories <= 3 registrations exhaustively, random to 14. Type menu of 9 Go types. Trusted: TLC, reflect, value identification by id field.",
   text="TLC checks Value() = Acceptable for every (scope, type) after every history; real Invoke (reflective and FastInvoker twins) and Apply results - arguments by identity, error type, call counter, results - are judged by TLC against the relation, for nested scopes and for two sibling requests on a real Flame."),
 "C06": dict(technique="TLA+ RouteSyntax.tla (stateful lexer + token grammar) vs RouteSyntaxP.tla (documented character grammar) model-checked by TLC over all class strings; concretised strings parsed by the real Parser; verdict/AST/canonical form validated by TLC (RouteSyntaxTrace.tla)", ref="4 C06",
   note="Bounded: all class strings to length 6 (quick) / 8 (thorough); random derivations/bytes beyond. Character membership in the documented sets is read from the repository's README at run time. Trusted: TLC, participle.",
   text="TLC checks Accept <=> Derives and the canonical fix-point for every class string in the bound; the real parser is run on concretisations and on random bytes/derivations/mutations under recover(), and TLC validates acceptance, the flattened AST, String() and the re-parse."),
 "C11": dict(technique="TLA+ RegistrarP.tla (stack-machine Exec vs positional Flatten) model-checked by TLC over all registration programs; programs executed on a real Flame (spare-capacity slices) and probed; handler-id traces validated by TLC (RegistrarTrace.tla)", ref="4 C11",
   note="Bounded: programs <= 4-5 instructions, depth 2 exhaustively; random to 15 instructions, depth 4. Static paths only.",
   text="TLC checks Exec = Flatten for every well-bracketed program; each program runs on a real Flame and every (method, path) is requested: the ids of the handlers that ran, the route text and found/not-found are judged by TLC against the flat expansion."),
 "C05": dict(technique="TLA+ Concurrent.tla (N request processes over shared read-only state + once-guarded caches) model-checked by TLC over all interleavings; TLC schedules forced on the real Flame through blocking gates; responses validated by TLC (ConcurrentTrace.tla); free-running rounds observed by the Go race detector", ref="4 C05",
   note="N <= 3 in the model; gates at three points per request (before routing, middleware, route handler). The no-data-race clause is observed by the Go race detector on the driven executions only (sound for those, not exhaustive over schedules). Trusted: TLC, Go race detector.",
   text="TLC checks serial equivalence, isolation and read-only-after-setup over every interleaving of the model; every distinct gate schedule is replayed on the real code and each response is judged by TLC against the serial outcome; race-detector rounds with fresh instances (so lazy caches are rendered concurrently) and 8-64 goroutines cover the data-race clause as far as a dynamic detector can."),
 "C16": dict(technique="TLA+ Static.tla (code-shaped decision procedure) vs StaticP.tla (declarative outcome over a fixed directory tree) model-checked by TLC over all request paths; paths requested from the real Static middleware over a scratch tree; outcomes validated by TLC (StaticTrace.tla)", ref="4 C16",
   note="Bounded: paths <= 4-5 segments over an 11-name alphabet exhaustively; hostile byte segments randomly. No symlinks / case folding. Trusted: TLC, net/http file serving, the OS file system.",
   text="TLC checks for every path, method and prefix setting that the decision procedure yields the declarative outcome and never a file outside the root; the real middleware is run on the same paths (prefix spelled four ways, option toggles) and kind, content, Location, written and next-handler-ran are judged by TLC."),
 "C17": dict(technique="TLA+ Render.tla / RenderP.tla decision table checked by TLC; every cell rendered on a real Flame with random values; status / headers / ordering and the logged decode-back facts validated by TLC (RenderTrace.tla)", ref="4 C17",
   note="Encode/decode fidelity is observed by the harness with encoding/json / encoding/xml and enters the trace as logged facts (roundtrip, body_eq_std) that the specification requires - the weakest use of the technique in the suite (DESIGN.md section 9).",
   text="The table (format x status x charset x indent x position relative to the Renderer middleware) is checked by TLC and every cell executed with random values; TLC validates the exact status, Content-Type (also at the moment the status was sent), that Render is injectable exactly after the middleware, and requires the logged round-trip facts."),
 "C18": dict(technique="TLA+ Accessors.tla / AccessorsP.tla decision table checked by TLC; every cell and random byte values exercised on real request contexts; results validated by TLC against the rule with strconv/net-url conversions as logged oracle (AccessorsTrace.tla)", ref="4 C18",
   note="Conversions and the cookie byte round trip are computed/observed by the harness (strconv, net/url, net/http cookie jar path) and compared for equality by TLC. Out-of-range numerals: either zero or the clamped value is tolerated.",
   text="TLC checks the branch structure of every accessor against the single presence/default rule over the whole table; real accessors are called with several values per class and with random bytes / huge numbers, cookies travel SetCookie -> Set-Cookie -> client -> Cookie -> Cookie(); TLC judges every result."),
 "C13": dict(
   technique="TLA+ spec RW.tla model-checked by TLC (layer I |= layer P, all op sequences to the bound); TLC-generated behaviours replayed on NewResponseWriter; recorded traces validated by TLC against RWTrace.tla",
   text="TLC checks exhaustively (all operation sequences up to depth 4 quick / 6 thorough, 3 methods, short writes) that the implementation-shaped model satisfies the five clauses of C13; every explored behaviour is executed on the real NewResponseWriter over a spy and the recorded step-by-step observations (Status/Size/Written + everything that reached the underlying writer) are validated by TLC against the property layer, as are random histories of up to 50 operations. Right level: the object is a small state machine, so bounded-exhaustive model checking plus trace conformance covers every transition combination.",
   note="Bounded: depth <= 6 exhaustively, random beyond. Trusted: TLC, the Go harness' spy writer, encoding/json. Hooks in the universe only set headers / read Status (a hook that writes re-enters sync.Once and deadlocks: outside the property).",
   ref="4 C13"),
}
NA = {}

def main():
    sha = subprocess.run(["git", "-C", "/repo", "log", "--format=%h %s"], capture_output=True, text=True).stdout.splitlines()
    hooks_commits = [l.split()[0] for l in sha if l.split(" ", 1)[1].startswith("verif:")]
    m = {"version": 1, "setup_cmd": "sh bin/setup.sh",
         "hooks": {"guard": "verif", "enable": "go build -tags verif (the harness is built with the tag; no hook had to be added to /repo - every observation the properties name is reachable through the public API, internal/route and instrumented handlers)",
                   "baseline_off_cmd": "python3 /verif/bin/baseline.py --json",
                   "source_commits": hooks_commits, "add_only": True},
         "engines": [{"name": "tlc+harness", "path": "bin/check.py", "serves_properties": sorted(CLAIMS),
                      "kind_free_text": "explicit TLA+ specifications (spec/*.tla) model-checked by TLC; TLC-generated behaviours replayed on the real code by the Go harness (harness/); traces recorded from the real code validated by TLC against the property layer (spec/*Trace.tla)"}],
         "checks": [], "not_applicable": [], "notes": "All properties are decided by the TLA+ specification suite + conformance (DESIGN.md). Exit 2 = infrastructure problem, no verdict."}
    for p in props:
        i = p["id"]
        if i in CLAIMS:
            c = CLAIMS[i]
            m["checks"].append({"property_id": i, "quick_cmd": "python3 bin/check.py %s --tier quick" % i,
                                "thorough_cmd": "python3 bin/check.py %s --tier thorough" % i,
                                "evidence_file": "evidence/%s.json" % i,
                                "replay_cmd_template": "python3 bin/check.py %s --replay {path}" % i,
                                "engine": "tlc+harness", "technique": c["technique"],
                                "level_claimed": {"category": LEVEL, "text": c["text"], "design_ref": c["ref"]},
                                "level_note": c["note"]})
        else:
            m["not_applicable"].append({"property_id": i, "reason": NA.get(i, "check not built yet (work in progress, DESIGN.md section 11); not claimed")})
    json.dump(m, open(os.path.join(V, "MANIFEST.json"), "w"), indent=1)
    try:
        import jsonschema
        jsonschema.validate(m, json.load(open("/root/.vp/MANIFEST.schema.json")))
    except ImportError:
        pass
    print("MANIFEST ok:", len(m["checks"]), "claimed")
main()
