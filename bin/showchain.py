#!/usr/bin/env python3
import json,sys
for f in sys.argv[1:]:
    r=json.load(open(f)); c=r['case']
    print('==',f, r['family'])
    for i,p in enumerate(c['progs']): print('  ',i,p['kind'],''.join(p['ops']),p['ret']['shape'],repr(p['ret']['s']),p['ret']['code'],p['ret']['err'])
    print('  var',c.get('var'))
    d=r['detail']; print('  line',d.get('line'), d.get('event'))
    print('  trace', [ (e.get('e'),e.get('h')) for e in d.get('trace',[]) if e.get('ev')=='c'])
