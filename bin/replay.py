"""Re-execute the single case of a replay file on the current tree and judge it with layer P."""
import json
from vlib import log


def replay(run, path):
    r = json.load(open(path))
    if r.get("detail", {}).get("kind") == "race-detector-report":
        # a race report is re-sought by re-running the race-detector rounds with the recorded seed
        import check
        run.seed = r["case"].get("gen_seed", run.seed)
        return check.PROPS[run.pid](run)
    how = r["how"]
    run.build_harness()
    ok, detail = run.reproduce("replay", how["hmodule"], r["case"], how["tmodule"], how["cfg_tmpl"],
                               how.get("replay_args") or (), how.get("env"))
    import shutil
    shutil.rmtree(run.work, ignore_errors=True)
    if ok:
        log(json.dumps(detail, indent=1)[:4000])
        log("VIOLATION property=%s replay=%s" % (run.pid, path))
        return 1
    log("case of %s is accepted by layer P on the current tree" % path)
    return 0
