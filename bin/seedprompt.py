#!/usr/bin/env python3
"""Writes the prompts for one round of seeded changes (one per property) and creates the scratch worktrees.

usage: seedprompt.py <round-dir> [--angle TEXT-FILE] [PROP ...]

<round-dir> lies outside /repo and /verif (e.g. /tmp/wt5). For every property a detached worktree of /repo's HEAD
is created at <round-dir>/<PROP> and the prompt is written to <round-dir>/prompt_<PROP>.txt. A prompt contains the
text of the property, the changes already stored under /verif/seeded for it (so that the agent produces a different
one) and nothing else from /verif.
"""
import glob
import json
import os
import subprocess
import sys

HERE = os.path.dirname(os.path.abspath(__file__))
VERIF = os.path.dirname(HERE)


def known(prop):
    out = []
    for d in sorted(glob.glob(os.path.join(VERIF, "seeded", prop + "*"))):
        name = os.path.basename(d)
        try:
            meta = json.load(open(os.path.join(d, "meta.json")))
        except Exception:
            continue
        if meta.get("property") != prop:
            continue
        files, lines = [], []
        for ln in open(os.path.join(d, "patch.diff"), errors="replace"):
            if ln.startswith("+++ b/"):
                files.append(ln[6:].strip())
            elif (ln.startswith("+") or ln.startswith("-")) and not ln.startswith(("+++", "---")):
                if ln[1:].strip():
                    lines.append("    " + ln.rstrip())
        out.append("- %s in %s (needs: %s)\n%s" % (name, ", ".join(files), meta.get("needs", "?"), "\n".join(lines[:14])))
    return out


BENIGN_EXTRA = ""


def benign_prompt(wt, rd, pid, p):
    """A change that must NOT break the property: used to look for false alarms of the checks."""
    return "\n".join([
        "You are helping to evaluate a verification tool for a Go web framework (flamego) by producing a BENIGN change: a realistic "
        "modification of the framework that does NOT violate the property below, although it changes the code the property's behaviour "
        "passes through. The tool must stay silent on it; we are looking for false alarms. Work ONLY inside your own scratch git "
        "worktree at %s (a checkout of the repository). Do not read or touch /verif or /repo. Do NOT use `git stash`.\n" % wt,
        "Shell environment for every Go command: export GOFLAGS=-mod=mod GOPROXY=off GOSUMDB=off GOTOOLCHAIN=local (there is no "
        "network). Run the existing tests with: cd %s && go test -vet=off -count=1 ./...   NOTE: five sub-tests of "
        "TestParser/invalid_routes in internal/route (missing_leading_slash, missing_opening_bracket, no_surroundings_for_regex and "
        "their parents) fail on the unchanged tree because of an error-message prefix; that is expected - every other test must still "
        "pass after your change.\n" % wt,
        "THE PROPERTY that must KEEP holding:\nTitle: %s\nStatement: %s\nQuantified over: %s\n" % (p["title"], p["statement"], p["quantifier"]["text"]),
        "YOUR TASK: make a change of 5-40 lines to the framework's non-test source under %s (not *_test.go) in the code this property "
        "depends on, of one or - better - a combination of these kinds: (a) a refactoring that restructures the implementation "
        "(different data structure, loop turned into recursion or back, helper extracted or inlined, fields renamed or reordered, a "
        "cache or fast path added that is correct); (b) a change of behaviour the property does NOT constrain: wording of error and "
        "panic messages, log output, the text of default bodies (not-found page, recovery page), extra response headers the property "
        "does not mention, defaults of options the property does not mention, the order in which independent checks are made at "
        "registration time when only one can fail, a different-but-equally-valid choice where the property leaves a choice open; (c) "
        "a performance change (pre-allocation, pooling done correctly, avoiding re-parsing) with identical semantics. Make it as "
        "INVASIVE as you can while being certain the property still holds for every input, schedule and history it quantifies over - "
        "re-read the statement clause by clause and argue for each clause why it is unaffected. Keep every exported identifier and "
        "every unexported identifier used across packages (internal/route and inject are used by the root package) compiling with "
        "its current signature. The existing test suite must still pass (apart from the five known failures), and the code must "
        "compile.\n" % wt + (("\n" + BENIGN_EXTRA + "\n") if BENIGN_EXTRA else ""),
        "When done, leave the change uncommitted in the worktree, save it with `git -C %s diff > %s/my_%s.patch`, and reply with: (a) "
        "the diff, (b) for each clause of the property one sentence on why it still holds, (c) which observable behaviour outside the "
        "property changed (if any)." % (wt, rd, pid),
    ])


def main():
    args = sys.argv[1:]
    rd = args.pop(0)
    angle = ""
    benign = False
    while args and args[0].startswith("--"):
        if args[0] == "--angle":
            args.pop(0)
            angle = open(args.pop(0)).read().strip()
        elif args[0] == "--benign":
            args.pop(0)
            benign = True
        elif args[0] == "--benign-extra":
            args.pop(0)
            global BENIGN_EXTRA
            BENIGN_EXTRA = open(args.pop(0)).read().strip()
    props = {}
    for ln in open(os.path.join(VERIF, "properties.jsonl")):
        p = json.loads(ln)
        props[p["id"]] = p
    todo = args or sorted(props)
    os.makedirs(rd, exist_ok=True)
    for pid in todo:
        p = props[pid]
        wt = os.path.join(rd, pid)
        if not os.path.isdir(wt):
            subprocess.run(["git", "-C", "/repo", "worktree", "add", "--detach", wt, "HEAD"], check=True,
                           stdout=subprocess.DEVNULL, stderr=subprocess.DEVNULL)
        kn = known(pid)
        t = []
        t.append("You are helping to evaluate a verification tool by producing a realistic, subtle bug (\"seeded change\") in a Go web "
                 "framework (flamego). Work ONLY inside your own scratch git worktree at %s (a checkout of the repository). Do not read "
                 "or touch /verif or /repo. Do NOT use `git stash` (the stash is shared with other worktrees of the same repository and "
                 "other agents are working in them).\n" % wt)
        t.append("Shell environment for every Go command: export GOFLAGS=-mod=mod GOPROXY=off GOSUMDB=off GOTOOLCHAIN=local (there is no "
                 "network). Run the existing tests with: cd %s && go test -vet=off -count=1 ./...   NOTE: five sub-tests of "
                 "TestParser/invalid_routes in internal/route (missing_leading_slash, missing_opening_bracket, "
                 "no_surroundings_for_regex and their parents) fail on the unchanged tree because of an error-message prefix; that is "
                 "expected - every other test must still pass after your change.\n" % wt)
        if benign:
            open(os.path.join(rd, "prompt_%s.txt" % pid), "w").write(benign_prompt(wt, rd, pid, p))
            print("wrote", os.path.join(rd, "prompt_%s.txt" % pid), "(benign)")
            continue
        t.append("THE PROPERTY the change must break:\nTitle: %s\nStatement: %s\nQuantified over: %s\n" % (p["title"], p["statement"], p["quantifier"]["text"]))
        if kn:
            t.append("ALREADY KNOWN changes for this property - %d earlier attempts, all of which the verification tool now detects. Do NOT "
                     "produce these or close variants; yours must differ in the code site or mechanism AND in what it needs in order to "
                     "manifest:\n%s\n" % (len(kn), "\n".join(kn)))
        t.append("YOUR TASK: make ONE small change to the framework's non-test source (a few lines, in the files under %s, not in "
                 "*_test.go) that\n 1. still compiles, and\n 2. still passes the existing test suite (apart from the five known failures "
                 "above), and\n 3. violates the property above - but NOT in a way that ordinary use would expose at once. It should need "
                 "something specific to manifest: a particular multi-step sequence of operations, an unusual input or value, a particular "
                 "interleaving, a rarely used API entry point, option or configuration, or two sites that each look fine alone. Think "
                 "like a plausible refactoring mistake, a missed edge case, a wrong boundary or an \"optimisation\", not sabotage. Be "
                 "creative: read ALL the code the property's behaviour passes through (including helper packages, option handling and "
                 "the less travelled branches) and look for a place none of the known changes touches. Re-read the property statement "
                 "clause by clause and pick a clause the known changes leave alone.\n" % wt)
        if angle:
            t.append(angle + "\n")
        t.append("Then write a DEMONSTRATION: a new Go test file (e.g. %s/seeded_demo_test.go in the right package, or under "
                 "internal/route or inject if it needs internals) that FAILS with your change and PASSES without it. Verify both "
                 "yourself: run the demo with the change (must fail); save the change with `git diff > %s/my_%s.patch`; revert it with "
                 "`git apply -R %s/my_%s.patch` (keep the demo); run the demo again (must pass); re-apply with `git apply "
                 "%s/my_%s.patch`. Also run the full existing suite with the change applied to confirm condition 2.\n" % (wt, rd, pid, rd, pid, rd, pid))
        t.append("When done, leave the worktree with BOTH the source change and the demo file present (uncommitted), and reply with: (a) "
                 "the output of `git -C %s diff` for the source change, (b) the path of the demo test file and the exact command to run "
                 "it, (c) two or three sentences on what is needed for the violation to manifest. Keep the change minimal. If an idea is "
                 "caught by the existing tests, try another one (up to a few attempts)." % wt)
        open(os.path.join(rd, "prompt_%s.txt" % pid), "w").write("\n".join(t))
        print("wrote", os.path.join(rd, "prompt_%s.txt" % pid), "known=%d" % len(kn))


if __name__ == "__main__":
    main()
