#!/bin/sh
# usage: bin/run_all.sh quick|thorough [seed]   - runs every claimed check, one line per property
tier=${1:-quick}; seed=${2:-1}
cd "$(dirname "$0")/.."
for p in C01 C02 C03 C04 C05 C06 C07 C08 C09 C10 C11 C12 C13 C14 C15 C16 C17 C18; do
  s=$(date +%s)
  VERIF_SEED=$seed python3 bin/check.py $p --tier $tier > /tmp/runall_${tier}_${p}.log 2>&1; rc=$?
  echo "$p tier=$tier seed=$seed rc=$rc wall=$(( $(date +%s) - s ))s :: $(grep -E 'held|VIOLATED|INFRA' /tmp/runall_${tier}_${p}.log | tail -1 | cut -c1-150)"
done
