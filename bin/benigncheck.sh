#!/bin/sh
# usage: benigncheck.sh <PROP> <worktree> <name> [props-to-check...]
# A change that is meant to KEEP the property: compiles, pinned suite passes, and the quick check(s) must hold.
# Stores the patch under /verif/benign/<name>/patch.diff.
P=$1; WT=$2; NAME=$3; shift 3; CHECKS=${*:-$P}
export GOFLAGS=-mod=mod GOPROXY=off GOSUMDB=off GOTOOLCHAIN=local
cd $WT || exit 2
mkdir -p /verif/benign/$NAME
git diff > /verif/benign/$NAME/patch.diff
echo "patch: $(grep -c '^[+-][^+-]' /verif/benign/$NAME/patch.diff) changed lines in $(grep -c '^+++ ' /verif/benign/$NAME/patch.diff) files"
go build ./... || { echo "DOES NOT COMPILE"; exit 1; }
VERIF_REPO=$WT python3 /verif/bin/baseline.py | tail -1
for c in $CHECKS; do
  (cd /verif && VERIF_REPO=$WT python3 bin/check.py $c --tier quick 2>&1 | grep -E "VIOLATION|held|VIOLATED|INFRA|rror" | cut -c1-170 | tail -4)
done
