#!/usr/bin/env python3
"""check.py <property> --tier quick|thorough [--replay file]"""
import argparse
import json
import os
import sys

sys.path.insert(0, os.path.dirname(os.path.abspath(__file__)))
import vlib
from vlib import Run, Infra, log

TRACE_CFG = """SPECIFICATION TSpec
CONSTANTS
 TraceFile = "@TRACE@"
 Dev = @DEV@
%s
CONSTRAINT HW
POSTCONDITION Accepted
CHECK_DEADLOCK FALSE
"""


# ============================================================== C13 ResponseWriter
RW_CONST = " Depth = %d\n Emit = %s\n HooksFirst = %s\n"
RW_TRACE_CFG = TRACE_CFG % (RW_CONST % (0, "FALSE", "TRUE"))


def rw_gen_cfg(depth, emit=True, hooks_first=True):
    return ("SPECIFICATION Spec\nCONSTANTS\n" + RW_CONST % (depth, "TRUE" if emit else "FALSE",
                                                           "TRUE" if hooks_first else "FALSE") +
            "INVARIANT P\nPROPERTY AppendOnly\nCONSTRAINT EmitCase\nCHECK_DEADLOCK FALSE\n")


def c13(run):
    quick = run.tier == "quick"
    run.build_harness()
    # (A) exhaustive: all operation sequences up to the depth, layer I |= layer P, replayed on the real writer
    depth = 4 if quick else 6
    r = run.model_check("RW", rw_gen_cfg(depth), name="RW_gen", want_cases=True, heap="20g")
    run.cov["exhaustive"] = True
    # negative control: hooks after the header must be refuted by TLC (anti-vacuity)
    run.tlc("RW", rw_gen_cfg(3, emit=False, hooks_first=False), name="RW_neg", expect_violation="P")
    run.conformance("rw_exhaustive_depth%d" % depth, "rw", r["cases_file"], "RWTrace", RW_TRACE_CFG)
    # (B) random long histories well beyond the bound
    n = 400 if quick else 20000
    gen = os.path.join(run.work, "rw_rand.jsonl")
    with open(gen, "w") as fo:
        p = run.hrun(["rw", "gen", run.seed, n], stdout=fo)
    if p.returncode != 0:
        raise Infra("rw gen failed: " + p.stderr[-2000:])
    run.conformance("rw_random_len50", "rw", gen, "RWTrace", RW_TRACE_CFG)
    # (C) the writer as the framework builds it for a request: HEAD requests - to routes added by Head, Any, Routes, Combo and
    # as the AutoHead twin of a Get - forward no body byte of the final action's answer (RegistrarTrace, random programs)
    rg_random(run, 150 if quick else 6000, label="rg_head_bodies")
    return run.finish(
        rule="(A) every operation sequence of length = depth over {WriteHeader(201|404), Write(0/0,3/3,3/1 accepted), Flush, "
             "Before(h1|h2), Push} x {GET,HEAD,POST} emitted by TLC (all prefixes are judged step by step), replayed on "
             "flamego.NewResponseWriter over a spy; (B) seeded random sequences of up to 50 operations with arbitrary final "
             "status codes, short writes and many hooks. A case is non-trivial unless it contains no header-triggering operation; "
             "distinct = distinct operation sequences.",
        extra_assumptions=["the spy http.ResponseWriter records faithfully what reaches it", "hooks only set headers and read Status()"])


# ============================================================== routing core
RT_TRACE_CFG = TRACE_CFG % ""


def rt_cfg(family, max_routes, max_segs, max_hdr=0, dev=(), emit=True, invs=("DispatchIff", "TreeSorted", "AcceptIff", "RoundTrip")):
    return ("SPECIFICATION Spec\nCONSTANTS\n Family = \"%s\"\n MaxRoutes = %d\n MaxSegs = %d\n MaxHdrOps = %d\n Dev = %s\n EmitCases = %s\n"
            % (family, max_routes, max_segs, max_hdr, vlib.tla_set(dev), "TRUE" if emit else "FALSE")
            + "".join("INVARIANT %s\n" % i for i in invs) + "CONSTRAINT EmitCase\nCHECK_DEADLOCK FALSE\n")


def rt_family(run, label, family, max_routes, max_segs, max_hdr=0, invs=("DispatchIff", "TreeSorted", "AcceptIff", "RoundTrip"), sample=16,
              max_cases=None):
    r = run.model_check("RouteTreeMC", rt_cfg(family, max_routes, max_segs, max_hdr, invs=invs), name="RT_" + label,
                        want_cases=True, heap="24g")
    if max_cases is None:
        max_cases = 12000 if run.tier == "quick" else 400000
    r["cases_file"] = vlib.subsample(r["cases_file"], max_cases, run.seed, run)
    return run.conformance(label, "tree", r["cases_file"], "RouteTreeTrace", RT_TRACE_CFG,
                           replay_args=["--univ", r["univ_file"]], env={"VERIF_SAMPLE": str(sample)})


def rt_negative(run, family, dev, inv="DispatchIff", max_routes=2, max_segs=2, max_hdr=0):
    run.tlc("RouteTreeMC", rt_cfg(family, max_routes, max_segs, max_hdr, dev=[dev], emit=False, invs=(inv,)),
            name="RT_neg_" + dev, expect_violation=inv)


def rt_random(run, label, kind, n, chunk=4000):
    gen = os.path.join(run.work, label + ".jsonl")
    with open(gen, "w") as fo:
        p = run.hrun(["tree", "gen", run.seed, n, kind], stdout=fo)
    if p.returncode != 0:
        raise Infra("tree gen failed: " + p.stderr[-2000:])
    return run.conformance(label, "tree", gen, "RouteTreeTrace", RT_TRACE_CFG, chunk_events=chunk)


ALL_INV = ("DispatchIff", "TreeSorted", "AcceptIff", "RoundTrip")
RT_ASSUME = ["Go's regexp, the harness' splitter/percent-decoder (oracle facts) and net/http/httptest are trusted",
             "bounded exhaustiveness: the TLC families enumerate the stated universes only; random families sample beyond them"]
RT_RULE = ("TLC enumerates every registration history of the family's universe and checks, for every request of the finite request "
           "universe, that the explicit-tree model (insertion, DFS, shortcut table, per-leaf header gates) yields the declarative "
           "winner computed from the history; every emitted history is replayed on route.Tree and on flamego.Flame; the real outcome of "
           "every request is compared with the P-outcome (prefilter) and mismatches plus a 1/16 sample go through TLC trace validation "
           "(RouteTreeTrace); seeded random route sets (up to 12 routes x 5 segments, several binds per segment, real expressions, "
           "escapes, arbitrary bytes) are validated event by event. Non-trivial = history with >= 2 registrations; distinct = distinct case inputs.")


def c01(run):
    quick = run.tier == "quick"
    run.build_harness()
    rt_negative(run, "prio", "LIFO")
    rt_family(run, "prio_2x2", "prio", 2, 2)
    if not quick:
        rt_family(run, "prio_3x1", "prio", 3, 1)
        rt_family(run, "prio_2x3", "prio", 2, 3, invs=("DispatchIff", "TreeSorted"))
    rt_random(run, "rand_prio", "prio", 300 if quick else 20000)
    # histories with rejected registrations: only SUCCESSFULLY registered routes may ever be dispatched to
    rt_random(run, "rand_reg", "reg", 300 if quick else 20000)
    # "per HTTP method": routes registered for several methods at once (Any / Routes / AutoHead), each method judged on its own
    rt_random(run, "rand_multi", "hdr", 250 if quick else 15000)
    return run.finish(rule=RT_RULE, extra_assumptions=RT_ASSUME)


def cap_cfg(maxlen, dev=(), emit=True):
    return ("SPECIFICATION Spec\nCONSTANTS\n MaxLen = %d\n EmitCases = %s\n Dev = %s\nINVARIANT EngineSound\nCONSTRAINT EmitCase\nCHECK_DEADLOCK FALSE\n"
            % (maxlen, "TRUE" if emit else "FALSE", vlib.tla_set(dev)))


def cap_family(run, maxlen, max_cases):
    """character-level captures: TLC computes all valid splits of every (segment, string); the backtracking-engine model must be sound"""
    run.tlc("Capture", cap_cfg(3, dev=["SHIFT"], emit=False), name="CAP_neg", expect_violation="EngineSound")
    r = run.model_check("Capture", cap_cfg(maxlen), name="CAP_gen", want_cases=True, heap="16g")
    cf = vlib.subsample(r["cases_file"], max_cases, run.seed, run)
    return run.conformance("cap_chars", "tree", cf, "RouteTreeTrace", RT_TRACE_CFG)


def c02(run):
    quick = run.tier == "quick"
    run.build_harness()
    cap_family(run, 5 if quick else 6, 8000 if quick else 200000)
    rt_family(run, "prio_2x2", "prio", 2 if quick else 2, 2, sample=4)
    rt_random(run, "rand_params", "prio", 600 if quick else 40000)
    rt_random(run, "rand_hostile", "hostile", 200 if quick else 10000)
    # header-gated routes: a leaf that matches the path but fails on the headers leaves nothing behind in the parameters
    rt_random(run, "rand_hdr", "hdr", 300 if quick else 20000)
    return run.finish(rule=RT_RULE, extra_assumptions=RT_ASSUME)


def c07(run):
    quick = run.tier == "quick"
    run.build_harness()
    rt_random(run, "rand_multi", "hdr", 250 if quick else 15000)
    rt_family(run, "prio_2x2", "prio", 2, 2)
    rt_random(run, "rand_hostile", "hostile", 500 if quick else 50000)
    # histories with REJECTED registrations (ill-formed routes, duplicates, a second match-all as optional last segment ...):
    # the outcome of a request is a function of the routes that were registered - a rejected one leaves nothing behind
    rt_random(run, "rand_reg", "reg", 300 if quick else 20000)
    return run.finish(rule=RT_RULE + " C07: hostile byte paths / unknown methods, each request issued twice; every Serve event must show "
                      "no panic and exactly one chain (counted by the first application middleware).", extra_assumptions=RT_ASSUME)


def c08(run):
    quick = run.tier == "quick"
    run.promote = {"accept"}     # C08 owns the acceptance verdicts of the routing trace specification
    run.build_harness()
    rt_negative(run, "reg", "D11", inv="AcceptIff")
    rt_family(run, "reg_2x2", "reg", 2, 2)
    if not quick:
        rt_family(run, "reg_3x1", "reg", 3, 1)
    rt_random(run, "rand_reg", "reg", 400 if quick else 30000)
    # the router-level rules (unknown method, same method twice for a path - through Routes lists with "*", Any, Combo):
    # random registration programs, panic / no panic and every request validated against the flat expansion
    rg_random(run, 300 if quick else 20000, label="rg_router_level")
    # registrations through Any / Routes / Get under AutoHead, among them calls that are rejected part-way and the
    # single-method registrations that follow them: acceptance is a per-method question
    rt_random(run, "rand_multi", "hdr", 250 if quick else 15000)
    return run.finish(rule=RT_RULE + " Router-level rejection (unknown method, a method registered twice for one path through "
                      "Routes lists incl. \"*\", Any, Combo) is validated on random registration programs by RegistrarTrace.",
                      extra_assumptions=RT_ASSUME)


def c09(run):
    quick = run.tier == "quick"
    run.build_harness()
    rt_negative(run, "hdr", "D6", max_hdr=1)
    rt_negative(run, "hdr", "D15", max_hdr=1)
    rt_family(run, "hdr_2x2x1", "hdr", 2, 2, 1 if quick else 2, invs=("DispatchIff", "TreeSorted", "AcceptIff"), sample=48,
              max_cases=7000 if quick else 300000)
    rt_random(run, "rand_hdr", "hdr", 400 if quick else 30000)
    return run.finish(rule=RT_RULE, extra_assumptions=RT_ASSUME)


def c10(run):
    quick = run.tier == "quick"
    run.build_harness()
    rt_negative(run, "hdr", "D7", max_hdr=1)
    rt_negative(run, "hdr", "D16", max_hdr=1)
    rt_family(run, "hdr_2x2x1", "hdr", 2, 2, 1 if quick else 2, invs=("DispatchIff", "TreeSorted", "AcceptIff"), sample=48,
              max_cases=7000 if quick else 300000)
    # three registrations of one-segment routes over two methods (single- and two-method calls), no Headers(): the
    # shortcut table must agree with the tree of EACH method
    rt_family(run, "hdr_3x1x0", "hdr", 3, 1, 0, invs=("DispatchIff", "TreeSorted", "AcceptIff"), sample=8)
    if not quick:
        rt_family(run, "hdr_3x1x1", "hdr", 3, 1, 1, invs=("DispatchIff", "TreeSorted", "AcceptIff"))
    rt_random(run, "rand_hdr", "hdr", 300 if quick else 20000)
    rt_random(run, "rand_prio", "prio", 200 if quick else 10000)
    return run.finish(rule=RT_RULE, extra_assumptions=RT_ASSUME)


def c12(run):
    quick = run.tier == "quick"
    run.build_harness()
    rt_family(run, "prio_2x2", "prio", 2, 2, sample=4)
    rt_random(run, "rand_url", "url", 600 if quick else 40000)
    rt_random(run, "rand_prio", "prio", 200 if quick else 10000)
    return run.finish(rule=RT_RULE + " C12: URLPath events (random value assignments incl. braces, other bind names, slashes, empty, bytes; "
                      "withOptional; unknown/empty/duplicate names) judged by the element-wise P_Build; the inverse law is judged on every "
                      "dispatched request (rb_with / rb_without).", extra_assumptions=RT_ASSUME)


# ============================================================== handler chain
CH_CONST = " N = %d\n MaxOps = %d\n Family = \"%s\"\n Dev = %s\n EmitCases = %s\n"


def ch_cfg(n, maxops, fam, dev=(), emit=True):
    return ("SPECIFICATION Spec\nCONSTANTS\n" + CH_CONST % (n, maxops, fam, vlib.tla_set(dev), "TRUE" if emit else "FALSE") +
            "INVARIANT PropertyHolds\nINVARIANT Terminates\nINVARIANT StatusAgrees\nCONSTRAINT EmitCase\nCHECK_DEADLOCK FALSE\n")


CH_TRACE_CFG = ("SPECIFICATION TSpec\nCONSTANTS\n TraceFile = \"@TRACE@\"\n Dev = @DEV@\n"
                "CONSTRAINT HW\nPOSTCONDITION Accepted\nCHECK_DEADLOCK FALSE\n")
CH_ASSUME = ["handlers are the harness' instrumented closures (one per return shape); flamego.Recovery() runs unmodified inside a logging shim",
             "reflect, net/http are trusted"]
CH_RULE = ("TLC enumerates every chain of N handler programs + action of the family (operations W/N/C/P, return shapes), runs the "
           "cursor-level model and checks every prefix of its event sequence against the monitor (layer P); every terminal behaviour is "
           "replayed on a real Flame (split into middleware / group / route handlers / action or the not-found chain, three invocation "
           "paths, three environments, five panic value kinds, chosen per case from the seed) and the recorded events are validated by "
           "TLC with the same monitor; random chains up to depth 8 with programs up to 5 operations. Non-trivial = some handler has an "
           "operation or a return value; distinct = distinct case inputs.")


def ch_family(run, label, n, maxops, fam, max_cases=None):
    r = run.model_check("Chain", ch_cfg(n, maxops, fam), name="CH_" + label, want_cases=True, heap="24g")
    if max_cases is None:
        max_cases = 15000 if run.tier == "quick" else 300000
    cf = vlib.subsample(r["cases_file"], max_cases, run.seed, run)
    return run.conformance(label, "chain", cf, "ChainTrace", CH_TRACE_CFG, env={"VERIF_SEED": str(run.seed)})


def ch_random(run, label, kind, n):
    gen = os.path.join(run.work, label + ".jsonl")
    with open(gen, "w") as fo:
        p = run.hrun(["chain", "gen", run.seed, n, kind], stdout=fo)
    if p.returncode != 0:
        raise Infra("chain gen failed: " + p.stderr[-2000:])
    return run.conformance(label, "chain", gen, "ChainTrace", CH_TRACE_CFG)


def c03(run):
    quick = run.tier == "quick"
    run.build_harness()
    run.tlc("Chain", ch_cfg(3, 2, "chain", dev=["D8"], emit=False), name="CH_neg_D8", expect_violation="PropertyHolds", heap="24g")
    # liveness (no CONSTRAINT, fair specification): every request of every chain ends, and an ended request stays ended
    run.model_check("Chain", "SPECIFICATION FairSpec\nCONSTANTS\n" + CH_CONST % (2, 2, "chain", "{}", "FALSE") +
                    "PROPERTY EventuallyEnds\nPROPERTY EndedIsFinal\nCHECK_DEADLOCK FALSE\n", name="CH_live_n2", heap="16g")
    ch_family(run, "chain_n2", 2, 2, "chain")
    if not quick:
        ch_family(run, "chain_n3", 3, 2, "chain")
    ch_random(run, "rand_chain", "chain", 1500 if quick else 100000)
    return run.finish(rule=CH_RULE, extra_assumptions=CH_ASSUME)


def c14(run):
    quick = run.tier == "quick"
    run.build_harness()
    ch_family(run, "ret_n2", 2, 1, "ret")
    ch_random(run, "rand_ret", "ret", 1500 if quick else 100000)
    return run.finish(rule=CH_RULE, extra_assumptions=CH_ASSUME)


def c15(run):
    quick = run.tier == "quick"
    run.build_harness()
    ch_family(run, "rec_n2", 2, 2, "rec")
    if not quick:
        ch_family(run, "rec_n3", 3, 2, "rec")
    ch_random(run, "rand_rec", "rec", 1500 if quick else 100000)
    rec_concurrent(run, 60 if quick else 1500)
    return run.finish(rule=CH_RULE + " Concurrent panics: rounds of 8-64 requests released by a barrier, most of them panicking at the "
                      "same time through ONE Recovery instance (development mode: formatted stack with source lines); the process must "
                      "survive and every request must get its own serial answer (ConcurrentTrace).", extra_assumptions=CH_ASSUME)


def rec_concurrent(run, n):
    """Panics of several requests AT THE SAME TIME through one Recovery instance: none escapes, nothing aborts the process,
    every request is answered as if it were alone. (Data races as such are the business of C05; here only what C15 states.)"""
    gen = os.path.join(run.work, "rec_conc.jsonl")
    with open(gen, "w") as fo:
        p = run.hrun(["conc", "gen", run.seed, n, "panic"], stdout=fo)
    if p.returncode != 0:
        raise Infra("conc gen failed: " + p.stderr[-2000:])
    trace = os.path.join(run.work, "rec_conc.trace.ndjson")
    run._cur = dict(hmodule="conc", tmodule="ConcurrentTrace", cfg_tmpl=TRACE_CFG % "", replay_args=[], env=None)
    aborts = []
    for attempt in range(3):
        p = run.hrun(["conc", "replay", gen, trace], timeout=10800)
        if p.returncode == 0:
            break
        if "fatal error:" not in p.stderr and "panic:" not in p.stderr:
            raise Infra("conc harness failed rc=%s: %s" % (p.returncode, p.stderr[-2000:]))
        aborts.append(p.stderr[:3000])
        if len(aborts) == 2:
            # the process died twice out of two or three attempts: reproduced
            run.violation("rec_concurrent_panics", dict(kind="process-abort", gen_seed=run.seed, rounds=n, family="conc gen <seed> <n> panic"),
                          dict(kind="the process serving the requests was aborted by the runtime while panics were being recovered", stderr=aborts))
            run.cov["families"].append(dict(family="rec_concurrent_panics", cases=n, events=0, rejected_events=1, aborted=True))
            return
    if p.returncode != 0:
        raise Infra("conc harness died once and survived once: no verdict\n" + aborts[0][:1500])
    if aborts:
        raise Infra("conc harness was aborted once and did not abort again: no verdict\n" + aborts[0][:1500])
    run.nondeterministic = True
    fails, ncases, nev = run.validate("ConcurrentTrace", TRACE_CFG % "", trace, label="rec_concurrent_panics")
    run.account(trace, ncases, 1)
    run.judge("rec_concurrent_panics", "conc", fails, trace, "ConcurrentTrace", TRACE_CFG % "", [])
    run.cov["families"].append(dict(family="rec_concurrent_panics", cases=ncases, events=nev, rejected_events=len(fails)))
    log("  family %-28s cases=%d events=%d rejected_events=%d" % ("rec_concurrent_panics", ncases, nev, len(fails)))


# ============================================================== injection
def inj_cfg(maxops, maxid, dev=(), emit=True):
    return ("SPECIFICATION Spec\nCONSTANTS\n MaxOps = %d\n MaxId = %d\n EmitCases = %s\n Dev = %s\n" % (maxops, maxid, "TRUE" if emit else "FALSE", vlib.tla_set(dev)) +
            "INVARIANT ValueConforms\nINVARIANT NearestWins\nINVARIANT SiblingIsolation\nINVARIANT LastWins\nCONSTRAINT EmitCase\nCHECK_DEADLOCK FALSE\n")


INJ_TRACE_CFG = TRACE_CFG % ""


def c04(run):
    quick = run.tier == "quick"
    run.build_harness()
    run.tlc("Inject", inj_cfg(2, 1, dev=["PARENT1ST"], emit=False), name="INJ_neg", expect_violation="ValueConforms")
    r = run.model_check("Inject", inj_cfg(2 if quick else 3, 2), name="INJ_gen", want_cases=True, heap="24g")
    cf = vlib.subsample(r["cases_file"], 2500 if quick else 60000, run.seed, run)
    run.conformance("inj_hist", "inject", cf, "InjectTrace", INJ_TRACE_CFG, chunk_events=15000)
    gen = os.path.join(run.work, "inj_rand.jsonl")
    with open(gen, "w") as fo:
        p = run.hrun(["inject", "gen", run.seed, 600 if quick else 40000], stdout=fo)
    if p.returncode != 0:
        raise Infra("inject gen failed: " + p.stderr[-2000:])
    run.conformance("inj_random", "inject", gen, "InjectTrace", INJ_TRACE_CFG, chunk_events=15000)
    return run.finish(
        rule="TLC enumerates every registration history (Map / MapTo / Set over 9 key types, 3 scopes with scope 3 nested or sibling, "
             "2 value ids) up to the bound and checks the code-shaped Value() against the declarative nearest-scope relation for every "
             "(scope, type); every history is replayed on real inject.Injector chains and - when scope 3 is a sibling - on the real "
             "Flame -> request-context chain (scope 1 = f.Map, scopes 2/3 = c.Map in an earlier handler of two separate requests), then "
             "all 10 signatures x {reflective, FastInvoker twin} are invoked in every scope and two tagged structs applied; each invoke/apply "
             "event is validated by TLC (InjectTrace). Random histories up to 14 registrations. Non-trivial = >= 2 registrations.",
        extra_assumptions=["argument identity is read from the value (id field / cap of the channel)", "reflect is trusted"])


# ============================================================== registrar
def rg_cfg(maxlen, maxdepth, dev=(), emit=True):
    return ("SPECIFICATION Spec\nCONSTANTS\n MaxLen = %d\n MaxDepth = %d\n EmitCases = %s\n Dev = %s\n" % (maxlen, maxdepth, "TRUE" if emit else "FALSE", vlib.tla_set(dev)) +
            "INVARIANT ExecIsFlatten\nCONSTRAINT EmitCase\nCHECK_DEADLOCK FALSE\n")


def rg_random(run, n, label="rg_random"):
    gen = os.path.join(run.work, label + ".jsonl")
    with open(gen, "w") as fo:
        p = run.hrun(["registrar", "gen", run.seed, n], stdout=fo)
    if p.returncode != 0:
        raise Infra("registrar gen failed: " + p.stderr[-2000:])
    return run.conformance(label, "registrar", gen, "RegistrarTrace", TRACE_CFG % "", chunk_events=20000)


def c11(run):
    quick = run.tier == "quick"
    run.build_harness()
    run.tlc("Registrar", rg_cfg(4, 2, dev=["NOPOP"], emit=False), name="RG_neg", expect_violation="ExecIsFlatten")
    r = run.model_check("Registrar", rg_cfg(4 if quick else 5, 2), name="RG_gen", want_cases=True, heap="24g")
    cf = vlib.subsample(r["cases_file"], 6000 if quick else 150000, run.seed, run)
    run.conformance("rg_programs", "registrar", cf, "RegistrarTrace", TRACE_CFG % "", chunk_events=20000)
    rg_random(run, 500 if quick else 30000)
    # dynamic, optional and header-gated routes registered through Any / Routes(two methods) / Get under AutoHead: every
    # method must behave like its own single-method registration (layer P of the route tree is per method)
    rt_random(run, "rand_multi", "hdr", 250 if quick else 15000)
    return run.finish(
        rule="TLC enumerates every well-bracketed registration program up to the length bound (groups with 0..1 handlers nested up to "
             "depth 2, Routes with one/two methods, Any, Get, Combo with 1-2 calls incl. a repeated method, AutoHead on/off) and checks "
             "that the stack-machine execution equals the positional flat expansion; each program is executed on a real Flame with "
             "id-logging handlers (all variadic lists passed with spare capacity) and every (method, path) of the concatenation universe "
             "is requested: handler-id trace, route text and status are validated by TLC against P_Flatten; random programs up to 15 "
             "instructions and depth 4. Non-trivial = program with >= 2 instructions.",
        extra_assumptions=["paths of the program universe are static, so the route a request reaches is identified by its text"])


# ============================================================== route syntax
def rs_cfg(maxlen, emitlen, dev=(), emit=True):
    return ("SPECIFICATION Spec\nCONSTANTS\n MaxLen = %d\n EmitLen = %d\n EmitCases = %s\n Dev = %s\n" % (maxlen, emitlen, "TRUE" if emit else "FALSE", vlib.tla_set(dev)) +
            "INVARIANT AcceptIffDerives\nINVARIANT CanonFixpoint\nCONSTRAINT EmitCase\nCHECK_DEADLOCK FALSE\n")


def c06(run):
    quick = run.tier == "quick"
    run.build_harness()
    env = {"VERIF_REPO": run.repo, "VERIF_SEED": str(run.seed), "VERIF_VARIANTS": "2" if quick else "4"}
    # design check: lexer + token grammar against the character grammar over the lexer's own classes ("D12" switch);
    # whether the DOCUMENTED classes (README) agree with them is judged per character in trace validation
    r = run.model_check("RouteSyntax", rs_cfg(6 if quick else 8, 5 if quick else 6, dev=["D12"]), name="RS_gen", want_cases=True, heap="24g")
    cf = vlib.subsample(r["cases_file"], 8000 if quick else 200000, run.seed, run)
    run.conformance("rs_classes", "syntax", cf, "RouteSyntaxTrace", TRACE_CFG % "", env=env)
    gen = os.path.join(run.work, "rs_rand.jsonl")
    with open(gen, "w") as fo:
        p = run.hrun(["syntax", "gen", run.seed, 5000 if quick else 300000], stdout=fo)
    if p.returncode != 0:
        raise Infra("syntax gen failed: " + p.stderr[-2000:])
    run.conformance("rs_random", "syntax", gen, "RouteSyntaxTrace", TRACE_CFG % "", env=env)
    return run.finish(
        rule="TLC enumerates every string over the 13-class alphabet up to MaxLen whose lexing has not failed and checks that the "
             "stateful lexer + token grammar accept exactly what the documented character grammar derives, and that the canonical form "
             "is a fix-point; the strings up to EmitLen are concretised with seeded members of each class (2-4 variants) and parsed by the "
             "real route.Parser under recover(); verdict, flattened AST, String(), re-parse are validated by TLC against the grammar "
             "(membership of each character in the README's <char>/<any> is read from the repository's README); random byte strings, "
             "random derivations (up to 5 segments, lists of 3 parameters, 0-2 blanks) and single-character mutations. "
             "Non-trivial = strings of length >= 2.",
        extra_assumptions=["participle's lexer/parser library is trusted to implement the rules it is given"])


# ============================================================== concurrency
def cc_cfg(nproc, dev=(), emit=True, view=False):
    return ("SPECIFICATION Spec\nCONSTANTS\n NProc = %d\n Dev = %s\n EmitCases = %s\n" % (nproc, vlib.tla_set(dev), "TRUE" if emit else "FALSE") +
            "INVARIANT SerialEquivalence\nINVARIANT Isolation\nINVARIANT NoRace\nINVARIANT ReadOnlyAfterSetup\nCONSTRAINT EmitCase\nCHECK_DEADLOCK FALSE\n" +
            ("VIEW View\n" if view else ""))


def c05(run):
    quick = run.tier == "quick"
    run.build_harness()
    race_bin = run.build_harness(race=True)
    run.fatal_race_is_violation = True
    for d in ("SHAREDSLICE", "NOONCE", "SHAREDRENDER", "SHAREDSRC", "SHAREDPARAMS", "SHAREDLOGGER"):
        run.tlc("Concurrent", cc_cfg(2, dev=[d], emit=False, view=True), name="CC_neg_" + d, expect_violation="ReadOnlyAfterSetup")
    # liveness under per-request fairness, and no request ever waits for another one
    run.model_check("Concurrent", "SPECIFICATION FairSpec\nCONSTANTS\n NProc = 2\n Dev = {}\n EmitCases = FALSE\n"
                    "PROPERTY EveryRequestAnswered\nINVARIANT NoWaiting\nCHECK_DEADLOCK FALSE\n", name="CC_live", heap="16g")
    # all interleavings of the model; the behaviours are emitted with their schedule of gate steps
    r = run.model_check("Concurrent", cc_cfg(2 if quick else 3), name="CC_gen", want_cases=True, heap="24g")
    uniq = os.path.join(run.work, "cc_uniq.jsonl")
    seen = set()
    with open(uniq, "w") as g:
        for line in open(r["cases_file"]):
            if line not in seen:
                seen.add(line)
                g.write(line)
    cf = vlib.subsample(uniq, 1500 if quick else 20000, run.seed, run)
    run.conformance("cc_gated_schedules", "conc", cf, "ConcurrentTrace", TRACE_CFG % "")
    # free-running stress under the race detector: a fresh Flame per round, 8-64 goroutines released by a barrier
    gen = os.path.join(run.work, "cc_stress.jsonl")
    with open(gen, "w") as fo:
        p = run.hrun(["conc", "gen", run.seed, 150 if quick else 5000], stdout=fo)
    if p.returncode != 0:
        raise Infra("conc gen failed: " + p.stderr[-2000:])
    trace = os.path.join(run.work, "cc_stress.trace.ndjson")
    run._cur = dict(hmodule="conc", tmodule="ConcurrentTrace", cfg_tmpl=TRACE_CFG % "", replay_args=[], env=None)
    p = run.hrun(["conc", "replay", gen, trace], binary=race_bin, timeout=10800, env={"GORACE": "halt_on_error=0 exitcode=66"})
    races = p.stderr.count("WARNING: DATA RACE")
    run.cov["race_detector"] = dict(rounds=sum(1 for _ in open(gen)), reports=races, binary="go build -race")
    if races:
        rep = p.stderr[p.stderr.index("WARNING: DATA RACE"):][:6000]
        if "flamego/flamego" in rep.replace("flamego/flamego/verifharness", ""):
            run.violation("cc_stress_race", dict(kind="data-race", gen_seed=run.seed), dict(kind="race-detector-report", report=rep))
        else:
            raise Infra("race report inside the harness only:\n" + rep[:2000])
    elif p.returncode != 0:
        raise Infra("race-enabled harness failed rc=%s: %s" % (p.returncode, p.stderr[-2000:]))
    run.nondeterministic = True   # free-running schedules: a rejected round is re-run up to three times
    fails, ncases, nev = run.validate("ConcurrentTrace", TRACE_CFG % "", trace, label="cc_stress")
    run.account(trace, ncases, 1)
    run.judge("cc_stress", "conc", fails, trace, "ConcurrentTrace", TRACE_CFG % "", [])
    run.cov["families"].append(dict(family="cc_stress_race", cases=ncases, events=nev, rejected_events=len(fails)))
    log("  family %-28s cases=%d events=%d rejected_events=%d race_reports=%d" % ("cc_stress_race", ncases, nev, len(fails), races))
    return run.finish(
        rule="TLC explores every interleaving of N requests (steps lookup / once-guarded render / fresh context / middleware / route "
             "handler) and checks serial equivalence, isolation and that nothing shared is written after set-up except through the once "
             "guard; every distinct schedule of gate steps is forced on the real Flame by blocking gates in Before/middleware/route handler "
             "and each response is validated by TLC against the serial outcome; free-running rounds (fresh Flame per round so that lazily "
             "rendered strings are rendered concurrently, 8-64 goroutines released by a barrier, all route kinds, named-route URL "
             "building, request-scoped Map) run under the Go race detector. Non-trivial = >= 2 concurrent requests.",
        extra_assumptions=["the data-race clause is observed by the Go race detector on the executions driven (sound for those, not all schedules)",
                           "gated replays add happens-before edges and are not used for the race clause"])


# ============================================================== static
def st_cfg(maxsegs, dev=(), emit=True):
    return ("SPECIFICATION Spec\nCONSTANTS\n MaxSegs = %d\n EmitCases = %s\n Dev = %s\n" % (maxsegs, "TRUE" if emit else "FALSE", vlib.tla_set(dev)) +
            "INVARIANT Conforms\nINVARIANT NeverOutside\nCONSTRAINT EmitCase\nCHECK_DEADLOCK FALSE\n")


def c16(run):
    quick = run.tier == "quick"
    run.build_harness()
    env = {"VERIF_SEED": str(run.seed)}
    run.tlc("Static", st_cfg(3, dev=["NOBOUNDARY"], emit=False), name="ST_neg", expect_violation="Conforms")
    r = run.model_check("Static", st_cfg(4 if quick else 5), name="ST_gen", want_cases=True, heap="24g")
    cf = vlib.subsample(r["cases_file"], 20000 if quick else 500000, run.seed, run)
    run.conformance("st_paths", "static", cf, "StaticTrace", TRACE_CFG % "", env=env, chunk_events=40000)
    gen = os.path.join(run.work, "st_rand.jsonl")
    with open(gen, "w") as fo:
        p = run.hrun(["static", "gen", run.seed, 10000 if quick else 300000], stdout=fo)
    if p.returncode != 0:
        raise Infra("static gen failed: " + p.stderr[-2000:])
    run.conformance("st_hostile", "static", gen, "StaticTrace", TRACE_CFG % "", env=env, chunk_events=40000)
    return run.finish(
        rule="TLC enumerates every request path up to MaxSegs segments over {f, d, e, g, index, pfx, pfxx, secret, .., ., empty} x "
             "{GET, HEAD, POST} x {no prefix, prefix pfx} and checks the code-shaped decision procedure (string prefix + boundary test, "
             "trimming, Clean inside the root, redirect, index) against the declarative outcome, and that only files inside the root are "
             "ever sent; every path is requested from the real Static middleware over a scratch tree with a file outside the root (prefix "
             "spelled 4 ways, ETag/Expires/CacheControl toggled by seed) and kind / content / Location / written / next-handler-ran are "
             "validated by TLC; hostile byte segments (NUL, back-slashes, encoded dots, long names) randomly. Non-trivial = >= 2 segments.",
        extra_assumptions=["the scratch tree contains no symlinks; file-system case folding is out of scope", "content is identified by body / Content-Length"])


# ============================================================== accessors
def c18(run):
    quick = run.tier == "quick"
    run.build_harness()
    env = {"VERIF_SEED": str(run.seed), "VERIF_VARIANTS": "3" if quick else "12"}
    cfg = lambda dev, emit: ("SPECIFICATION Spec\nCONSTANTS\n Dev = %s\n EmitCases = %s\nINVARIANT Conforms\nCONSTRAINT EmitCase\nCHECK_DEADLOCK FALSE\n"
                             % (vlib.tla_set(dev), "TRUE" if emit else "FALSE"))
    run.tlc("Accessors", cfg(["D10"], False), name="AC_neg", expect_violation="Conforms", workers=4)
    r = run.model_check("Accessors", cfg([], True), name="AC_gen", want_cases=True, workers=4)
    run.cov["exhaustive"] = True
    run.conformance("ac_table", "access", r["cases_file"], "AccessorsTrace", TRACE_CFG % "", env=env)
    gen = os.path.join(run.work, "ac_rand.jsonl")
    with open(gen, "w") as fo:
        p = run.hrun(["access", "gen", run.seed, 5000 if quick else 200000], stdout=fo)
    if p.returncode != 0:
        raise Infra("access gen failed: " + p.stderr[-2000:])
    run.conformance("ac_random", "access", gen, "AccessorsTrace", TRACE_CFG % "", env=env, chunk_events=40000)
    return run.finish(
        rule="TLC enumerates the complete decision table accessor x presence class x default (120 cells) and checks the branch structure "
             "of each accessor against the single rule; every applicable cell is exercised on a real request context with several "
             "concrete values per class, then random byte strings / huge numbers / floats as query, parameter and cookie values; each "
             "result is validated by TLC against the rule with the standard conversion (strconv / net/url, computed by the harness) as "
             "oracle; cookies go SetCookie -> Set-Cookie -> client jar -> Cookie header -> Cookie() and must come back byte for byte. "
             "Non-trivial = every case (each has a distinct value / cell).",
        extra_assumptions=["strconv / net/url are the conversion oracle", "byte-level fidelity is a logged fact compared for equality by TLC"])


# ============================================================== render
def c17(run):
    quick = run.tier == "quick"
    run.build_harness()
    env = {"VERIF_SEED": str(run.seed)}
    cfg = lambda dev, emit: ("SPECIFICATION Spec\nCONSTANTS\n Dev = %s\n EmitCases = %s\nINVARIANT Conforms\nCONSTRAINT EmitCase\nCHECK_DEADLOCK FALSE\n"
                             % (vlib.tla_set(dev), "TRUE" if emit else "FALSE"))
    run.tlc("Render", cfg(["FIXEDCHARSET"], False), name="RD_neg", expect_violation="Conforms", workers=4)
    r = run.model_check("Render", cfg([], True), name="RD_gen", want_cases=True, workers=4)
    run.cov["exhaustive"] = True
    # every table cell several times with different random values
    reps = os.path.join(run.work, "rd_cells.jsonl")
    with open(reps, "w") as g:
        for k in range(4 if quick else 40):
            g.write(open(r["cases_file"]).read())
    run.conformance("rd_table", "render", reps, "RenderTrace", TRACE_CFG % "", env=env)
    gen = os.path.join(run.work, "rd_rand.jsonl")
    with open(gen, "w") as fo:
        p = run.hrun(["render", "gen", run.seed, 3000 if quick else 150000], stdout=fo)
    if p.returncode != 0:
        raise Infra("render gen failed: " + p.stderr[-2000:])
    run.conformance("rd_random", "render", gen, "RenderTrace", TRACE_CFG % "", env=env, chunk_events=40000)
    return run.finish(
        rule="TLC enumerates the table format x status x charset x indentation x position of the handler relative to the Renderer "
             "middleware, with a different indentation configured for the other encoder (256 cells) and checks the code-shaped option handling against the table; every cell is rendered on a real Flame "
             "over a spy writer with random values (random nested JSON values, an XML document type, random bytes and text) and TLC "
             "validates status, Content-Type (also as seen when the status went out), resolvability of Render, and the logged facts that the "
             "body decodes back to the value and equals the standard encoder's output with the configured indentation; random statuses "
             "200-599, charsets and indents beyond the table. Non-trivial = every case (distinct value seeds).",
        extra_assumptions=["encoding/json and encoding/xml are the fidelity oracle (encode/decode fidelity cannot be expressed over uninterpreted bytes in TLA+)"])


# ============================================================== growth beyond the listed properties
def xmisc(run):
    run.build_harness()
    cfg = lambda dev, emit: ("SPECIFICATION Spec\nCONSTANTS\n Dev = %s\n EmitCases = %s\nINVARIANT Conforms\nCONSTRAINT EmitCase\nCHECK_DEADLOCK FALSE\n"
                             % (vlib.tla_set(dev), "TRUE" if emit else "FALSE"))
    run.tlc("Misc", cfg(["FWDFIRST"], False), name="MI_neg", expect_violation="Conforms", workers=4)
    r = run.model_check("Misc", cfg([], True), name="MI_gen", want_cases=True, workers=4)
    run.conformance("misc_table", "misc", r["cases_file"], "MiscTrace", TRACE_CFG % "")
    gen = os.path.join(run.work, "misc_rand.jsonl")
    with open(gen, "w") as fo:
        p = run.hrun(["misc", "gen", run.seed, 1000 if run.tier == "quick" else 50000], stdout=fo)
    if p.returncode != 0:
        raise Infra("misc gen failed: " + p.stderr[-2000:])
    run.conformance("misc_random", "misc", gen, "MiscTrace", TRACE_CFG % "")
    return run.finish(rule="RemoteAddr / Redirect / SetEnv / Logger decision tables (specification growth beyond the eighteen properties); "
                           "every cell and random values on the real code, judged by TLC (MiscTrace).")


PROPS = {"XMISC": xmisc, "C17": c17, "C18": c18, "C16": c16, "C05": c05, "C06": c06, "C11": c11, "C04": c04, "C03": c03, "C14": c14, "C15": c15, "C13": c13, "C01": c01, "C02": c02, "C07": c07, "C08": c08, "C09": c09, "C10": c10, "C12": c12}


def main():
    ap = argparse.ArgumentParser()
    ap.add_argument("prop")
    ap.add_argument("--tier", default=os.environ.get("VERIF_TIER", "quick"))
    ap.add_argument("--replay")
    a = ap.parse_args()
    seed = int(os.environ.get("VERIF_SEED", "1") or 1)
    if a.prop not in PROPS:
        log("unknown property", a.prop)
        return 2
    run = Run(a.prop, a.tier, seed)
    try:
        if a.replay:
            import replay
            return replay.replay(run, a.replay)
        return PROPS[a.prop](run)
    except Infra:
        import shutil
        if os.environ.get("VERIF_KEEP"):
            log("kept work dir", run.work)
        else:
            shutil.rmtree(run.work, ignore_errors=True)
        raise


if __name__ == "__main__":
    vlib.main_wrap(main)
