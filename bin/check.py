#!/usr/bin/env python3
"""check.py <property> --tier quick|thorough [--replay file]"""
import argparse
import json
import os
import sys

sys.path.insert(0, os.path.dirname(os.path.abspath(__file__)))
import vlib
from vlib import Run, Infra, log

TRACE_CFG = """SPECIFICATION TSpec
CONSTANTS
 TraceFile = "@TRACE@"
 Dev = @DEV@
%s
CONSTRAINT HW
POSTCONDITION Accepted
CHECK_DEADLOCK FALSE
"""


# ============================================================== C13 ResponseWriter
RW_CONST = " Depth = %d\n Emit = %s\n HooksFirst = %s\n"
RW_TRACE_CFG = TRACE_CFG % (RW_CONST % (0, "FALSE", "TRUE"))


def rw_gen_cfg(depth, emit=True, hooks_first=True):
    return ("SPECIFICATION Spec\nCONSTANTS\n" + RW_CONST % (depth, "TRUE" if emit else "FALSE",
                                                           "TRUE" if hooks_first else "FALSE") +
            "INVARIANT P\nPROPERTY AppendOnly\nCONSTRAINT EmitCase\nCHECK_DEADLOCK FALSE\n")


def c13(run):
    quick = run.tier == "quick"
    run.build_harness()
    # (A) exhaustive: all operation sequences up to the depth, layer I |= layer P, replayed on the real writer
    depth = 4 if quick else 6
    r = run.model_check("RW", rw_gen_cfg(depth), name="RW_gen", want_cases=True, heap="20g")
    run.cov["exhaustive"] = True
    # negative control: hooks after the header must be refuted by TLC (anti-vacuity)
    run.tlc("RW", rw_gen_cfg(3, emit=False, hooks_first=False), name="RW_neg", expect_violation="P")
    run.conformance("rw_exhaustive_depth%d" % depth, "rw", r["cases_file"], "RWTrace", RW_TRACE_CFG)
    # (B) random long histories well beyond the bound
    n = 400 if quick else 20000
    gen = os.path.join(run.work, "rw_rand.jsonl")
    with open(gen, "w") as fo:
        p = run.hrun(["rw", "gen", run.seed, n], stdout=fo)
    if p.returncode != 0:
        raise Infra("rw gen failed: " + p.stderr[-2000:])
    run.conformance("rw_random_len50", "rw", gen, "RWTrace", RW_TRACE_CFG)
    return run.finish(
        rule="(A) every operation sequence of length = depth over {WriteHeader(201|404), Write(0/0,3/3,3/1 accepted), Flush, "
             "Before(h1|h2), Push} x {GET,HEAD,POST} emitted by TLC (all prefixes are judged step by step), replayed on "
             "flamego.NewResponseWriter over a spy; (B) seeded random sequences of up to 50 operations with arbitrary final "
             "status codes, short writes and many hooks. A case is non-trivial unless it contains no header-triggering operation; "
             "distinct = distinct operation sequences.",
        extra_assumptions=["the spy http.ResponseWriter records faithfully what reaches it", "hooks only set headers and read Status()"])


# ============================================================== routing core
RT_TRACE_CFG = TRACE_CFG % ""


def rt_cfg(family, max_routes, max_segs, max_hdr=0, dev=(), emit=True, invs=("DispatchIff", "TreeSorted", "AcceptIff", "RoundTrip")):
    return ("SPECIFICATION Spec\nCONSTANTS\n Family = \"%s\"\n MaxRoutes = %d\n MaxSegs = %d\n MaxHdrOps = %d\n Dev = %s\n EmitCases = %s\n"
            % (family, max_routes, max_segs, max_hdr, vlib.tla_set(dev), "TRUE" if emit else "FALSE")
            + "".join("INVARIANT %s\n" % i for i in invs) + "CONSTRAINT EmitCase\nCHECK_DEADLOCK FALSE\n")


def rt_family(run, label, family, max_routes, max_segs, max_hdr=0, invs=("DispatchIff", "TreeSorted", "AcceptIff", "RoundTrip"), sample=16):
    r = run.model_check("RouteTreeMC", rt_cfg(family, max_routes, max_segs, max_hdr, invs=invs), name="RT_" + label,
                        want_cases=True, heap="24g")
    return run.conformance(label, "tree", r["cases_file"], "RouteTreeTrace", RT_TRACE_CFG,
                           replay_args=["--univ", r["univ_file"]], env={"VERIF_SAMPLE": str(sample)})


def rt_negative(run, family, dev, inv="DispatchIff", max_routes=2, max_segs=2, max_hdr=0):
    run.tlc("RouteTreeMC", rt_cfg(family, max_routes, max_segs, max_hdr, dev=[dev], emit=False, invs=(inv,)),
            name="RT_neg_" + dev, expect_violation=inv)


def rt_random(run, label, kind, n, chunk=4000):
    gen = os.path.join(run.work, label + ".jsonl")
    with open(gen, "w") as fo:
        p = run.hrun(["tree", "gen", run.seed, n, kind], stdout=fo)
    if p.returncode != 0:
        raise Infra("tree gen failed: " + p.stderr[-2000:])
    return run.conformance(label, "tree", gen, "RouteTreeTrace", RT_TRACE_CFG, chunk_events=chunk)


def c01(run):
    quick = run.tier == "quick"
    run.build_harness()
    rt_negative(run, "prio", "LIFO")
    rt_family(run, "prio_2x2", "prio", 2, 2)
    rt_random(run, "rand_prio", "prio", 300 if quick else 20000)
    return run.finish(rule="TODO")


PROPS = {"C13": c13, "C01": c01}


def main():
    ap = argparse.ArgumentParser()
    ap.add_argument("prop")
    ap.add_argument("--tier", default=os.environ.get("VERIF_TIER", "quick"))
    ap.add_argument("--replay")
    a = ap.parse_args()
    seed = int(os.environ.get("VERIF_SEED", "1") or 1)
    if a.prop not in PROPS:
        log("unknown property", a.prop)
        return 2
    run = Run(a.prop, a.tier, seed)
    try:
        if a.replay:
            import replay
            return replay.replay(run, a.replay)
        return PROPS[a.prop](run)
    except Infra:
        import shutil
        if os.environ.get("VERIF_KEEP"):
            log("kept work dir", run.work)
        else:
            shutil.rmtree(run.work, ignore_errors=True)
        raise


if __name__ == "__main__":
    vlib.main_wrap(main)
