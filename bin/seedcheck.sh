#!/bin/sh
# usage: seedcheck.sh <PROP> <worktree> <name> [props-to-check...]
# Confirms a seeded change (compiles, pinned suite passes, demo fails with / passes without), stores it under
# /verif/seeded/<name>/ and runs the quick check(s) against the changed tree.
P=$1; WT=$2; NAME=$3; shift 3; CHECKS=${*:-$P}
export GOFLAGS=-mod=mod GOPROXY=off GOSUMDB=off GOTOOLCHAIN=local
cd $WT || exit 2
DEMO=$(git status --porcelain | grep '^??' | awk '{print $2}' | grep '_test.go$' | head -1)
PKG=./$(dirname $DEMO)
mkdir -p /verif/seeded/$NAME
git diff > /verif/seeded/$NAME/patch.diff
cp $DEMO /verif/seeded/$NAME/
echo "demo=$DEMO pkg=$PKG"
go build ./... || { echo "DOES NOT COMPILE"; exit 1; }
VERIF_REPO=$WT python3 /verif/bin/baseline.py | tail -3
echo "--- demo WITH change (must fail):"
go test -vet=off -count=1 -run 'Seeded|Demo' $PKG 2>&1 | tail -4
# (no git stash: the stash is shared by all worktrees of a repository)
git apply -R /verif/seeded/$NAME/patch.diff
echo "--- demo WITHOUT change (must pass):"
go test -vet=off -count=1 -run 'Seeded|Demo' $PKG 2>&1 | tail -2
git apply /verif/seeded/$NAME/patch.diff
for c in $CHECKS; do
  echo "--- check $c against the changed tree:"
  (cd /verif && VERIF_REPO=$WT python3 bin/check.py $c --tier quick 2>&1 | grep -E "VIOLATION|held|VIOLATED|INFRA|family" | cut -c1-170 | tail -6)
done
