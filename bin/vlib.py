"""Shared machinery of the flamego verification checks.

Pipeline per property (DESIGN.md sections 1 and 3):
  TLC explores the TLA+ specification (layer I |= layer P) and emits CASE lines
  -> the Go harness replays every case on the real flamego built from the repo's
     working tree and records an ndjson trace
  -> TLC validates the recorded trace against layer P (Trace*.tla); events P
     rejects are reported in a FAILS list (line, verdict)
  -> a rejected case is re-executed alone; only a reproduced rejection is a VIOLATION.
Exit codes: 0 held, 1 violation, 2 infrastructure problem (no verdict).
"""
import concurrent.futures as cf
import hashlib
import json
import os
import re
import shutil
import subprocess
import sys
import tempfile
import time

VERIF = os.path.dirname(os.path.dirname(os.path.abspath(__file__)))
JAR = "/opt/veriftools/tla/tla2tools.jar:/opt/veriftools/tla/CommunityModules-deps.jar"
GOENV = dict(GOFLAGS="-mod=mod", GOPROXY="off", GOSUMDB="off", GOTOOLCHAIN="local")


# verdict classes of the routing trace specification that only the owning property's check turns into a violation:
#   accept   the code accepted / refused a registration against P_WellFormed (owned by C08: promote = {"accept"})
#   tainted  an event of a case whose set of registered routes is not the one layer P knows (no verdict)
OUTSIDE = {"accept", "tainted"}


class Infra(Exception):
    """Infrastructure problem: no verdict (exit 2)."""


def log(*a):
    print(*a, flush=True)


class Run:
    def __init__(self, pid, tier, seed):
        self.pid, self.tier, self.seed = pid, tier, seed
        self.repo = os.environ.get("VERIF_REPO", "/repo")
        self.t0 = time.time()
        self.work = tempfile.mkdtemp(prefix="verif-%s-" % pid)
        self.spec = os.path.join(self.work, "spec")
        shutil.copytree(os.path.join(VERIF, "spec"), self.spec)
        self.harness = None
        self.cov = dict(states=0, transitions=0, traces_validated_against_impl=0, samples=[],
                        evaluations=0, distinct_nontrivial=0, rule="", exhaustive=False,
                        tlc_runs=[], families=[], divergences=0, excused_by_known_finding=0,
                        prefiltered_equal=0)
        self.nt_hashes = set()
        self.violations = []      # (case, why)
        self.unreproduced = []
        self.known_hit = {}       # finding id -> count
        self.assumptions = []
        self.n_tlc = 0
        kf = json.load(open(os.path.join(VERIF, "known_findings.json")))
        self.findings = [f for f in kf["findings"] if f["property"] == pid or pid in f.get("also", [])]
        self.open_devs = sorted(f["id"] for f in self.findings if f["status"] == "open")

    # ------------------------------------------------------------------ build
    def build_harness(self, race=False):
        src = os.path.join(VERIF, "harness")
        dst = os.path.join(self.work, "harness" + ("-race" if race else ""))
        if os.path.exists(dst):
            shutil.rmtree(dst)
        shutil.copytree(src, dst, ignore=shutil.ignore_patterns("go.sum"))
        gomod = open(os.path.join(dst, "go.mod")).read()
        gomod = re.sub(r"replace github.com/flamego/flamego => .*",
                       "replace github.com/flamego/flamego => " + self.repo, gomod)
        open(os.path.join(dst, "go.mod"), "w").write(gomod)
        shutil.copy(os.path.join(self.repo, "go.sum"), os.path.join(dst, "go.sum"))
        out = os.path.join(self.work, "vh" + ("-race" if race else ""))
        env = dict(os.environ, **GOENV)
        if race:
            env["CGO_ENABLED"] = "1"
        cmd = ["go", "build", "-tags", "verif", "-o", out] + (["-race"] if race else []) + ["."]
        p = subprocess.run(cmd, cwd=dst, env=env, capture_output=True, text=True)
        if p.returncode != 0:
            # the verif-tagged hook files are diagnostic only: retry without the tag
            cmd = ["go", "build", "-o", out] + (["-race"] if race else []) + ["."]
            p2 = subprocess.run(cmd, cwd=dst, env=env, capture_output=True, text=True)
            if p2.returncode != 0:
                raise Infra("harness build failed:\n" + p.stderr[-4000:] + p2.stderr[-4000:])
        if not race:
            self.harness = out
        return out

    def hrun(self, args, timeout=10800, binary=None, stdout=None, env=None):
        """Run the harness; returns CompletedProcess. A crash/hang is reported to the caller."""
        e = dict(os.environ)
        e["FLAMEGO_ENV"] = "development"
        if env:
            e.update(env)
        try:
            return subprocess.run([binary or self.harness] + [str(a) for a in args], stdout=stdout,
                                  stderr=subprocess.PIPE, text=True, timeout=timeout, env=e)
        except subprocess.TimeoutExpired as ex:
            r = subprocess.CompletedProcess(args, 124, "", "TIMEOUT after %ss" % timeout)
            return r

    # ------------------------------------------------------------------ TLC
    def tlc(self, module, cfg, name=None, workers=16, simulate=None, depth=None, timeout=14400,
            heap="12g", want_cases=False, coverage=False, expect_violation=None, extra=()):
        """Run TLC on spec/<module>.tla with the given cfg text.
        Returns dict(generated, distinct, cases_file, out_file, violated, ok)."""
        self.n_tlc += 1
        name = name or "%s_%d" % (module, self.n_tlc)
        cfgp = os.path.join(self.spec, name + ".cfg")
        open(cfgp, "w").write(cfg)
        outp = os.path.join(self.work, name + ".out")
        meta = os.path.join(self.work, "meta_" + name)
        cmd = ["java", "-XX:+UseParallelGC", "-XX:ParallelGCThreads=%d" % (2 if workers == 1 else 8), "-Xss64m", "-Xmx" + heap,
               "-Djava.io.tmpdir=" + self.work,   # TLC's own scratch directories go with the work directory, not into /tmp
               "-cp", JAR, "tlc2.TLC",
               "-workers", str(workers), "-metadir", meta, "-config", cfgp, "-noGenerateSpecTE"]
        if simulate:
            cmd += ["-simulate", simulate]
            if depth:
                cmd += ["-depth", str(depth)]
            cmd += ["-seed", str(self.seed)]
        if coverage:
            cmd += ["-coverage", "1"]
        cmd += list(extra) + [module + ".tla"]
        t0 = time.time()
        with open(outp, "w") as fo:
            try:
                p = subprocess.run(cmd, cwd=self.spec, stdout=fo, stderr=subprocess.STDOUT, timeout=timeout)
                rc = p.returncode
            except subprocess.TimeoutExpired:
                rc = 124
        dt = time.time() - t0
        shutil.rmtree(meta, ignore_errors=True)
        res = dict(name=name, module=module, rc=rc, wall_s=round(dt, 1), out_file=outp, generated=0, distinct=0,
                   violated=None, errors=[], cases_file=None, fails=None)
        cases = None
        if want_cases:
            res["cases_file"] = os.path.join(self.work, name + ".cases.jsonl")
            cases = open(res["cases_file"], "w")
        ncases = 0
        pend_fails = []
        with open(outp, errors="replace") as f:
            for line in f:
                if line.startswith('"UNIV '):
                    res["univ_file"] = os.path.join(self.work, name + ".univ.json")
                    open(res["univ_file"], "w").write(json.loads(line)[5:])
                    continue
                if line.startswith('"CASE '):
                    if cases is not None:
                        try:
                            s = json.loads(line)
                        except Exception:
                            raise Infra("unparsable CASE line in " + outp)
                        cases.write(s[5:] + "\n")
                        ncases += 1
                    continue
                m = re.match(r"^(\d+) states generated, (\d+) distinct states found", line)
                if m:
                    res["generated"], res["distinct"] = int(m.group(1)), int(m.group(2))
                m = re.match(r"^Error: Invariant (\S+) is violated", line)
                if m:
                    res["violated"] = m.group(1)
                m = re.match(r"^Error: Action property (\S+) is violated", line)
                if m:
                    res["violated"] = m.group(1)
                if line.startswith("Error:") or "Exception" in line and "at " not in line[:4]:
                    res["errors"].append(line.strip()[:300])
                if line.startswith('<<"FAIL"'):
                    m = re.match(r'<<"FAIL", (\d+), "([^"]+)">>', line)
                    pend_fails.append((int(m.group(1)), m.group(2)))
                if line.startswith('<<"TRACE_CONSUMED"'):
                    res["fails"] = sorted(set(pend_fails))
                if line.startswith('<<"REJECTED_AT"'):
                    res["rejected_at"] = int(re.search(r"(\d+)", line).group(1))
        if cases is not None:
            cases.close()
            res["ncases"] = ncases
        if simulate and res["generated"] == 0:
            # simulation mode prints a different summary; count from progress lines
            txt = open(outp, errors="replace").read()
            m = re.findall(r"(\d+) states checked", txt)
            if m:
                res["generated"] = res["distinct"] = int(m[-1])
        if rc == 124:
            raise Infra("TLC timeout on %s after %ss" % (name, timeout))
        if expect_violation is None:
            if res["violated"] or (rc != 0 and "rejected_at" not in res and res["fails"] is None):
                tail = subprocess.run(["tail", "-40", outp], capture_output=True, text=True).stdout
                raise Infra("TLC failed on specification %s (rc=%s, violated=%s):\n%s" % (name, rc, res["violated"], tail))
        else:
            if res["violated"] != expect_violation:
                tail = subprocess.run(["tail", "-30", outp], capture_output=True, text=True).stdout
                raise Infra("negative control %s: expected violation of %s, got %s\n%s" %
                            (name, expect_violation, res["violated"], tail))
        self.cov["tlc_runs"].append(dict(name=name, module=module, generated=res["generated"], distinct=res["distinct"],
                                         wall_s=res["wall_s"], mode="simulate" if simulate else "exhaustive",
                                         expect_violation=expect_violation, found=res["violated"]))
        return res

    def model_check(self, module, cfg, **kw):
        """An exhaustive (or simulated) layer-I |= layer-P run; its statistics go into the evidence."""
        r = self.tlc(module, cfg, **kw)
        if kw.get("expect_violation") is None:
            self.cov["states"] += r["distinct"]
            self.cov["transitions"] += r["generated"]
        return r

    # ------------------------------------------------------------------ trace validation
    def validate_file(self, tmodule, cfg_tmpl, trace, name, heap="3g", timeout=10800):
        """Validate one ndjson trace file. Returns list of (line, verdict)."""
        cfg = cfg_tmpl.replace("@TRACE@", trace).replace("@DEV@", tla_set(self.open_devs))
        r = self.tlc(tmodule, cfg, name=name, workers=1, heap=heap, timeout=timeout,
                     extra=())
        if "rejected_at" in r:
            ln = r["rejected_at"]
            rec = line_of(trace, ln)
            raise Infra("trace %s not consumable at line %d (malformed event / spec gap): %s" % (trace, ln, rec[:400]))
        if r["fails"] is None:
            raise Infra("validator %s printed no verdict:\n%s" % (name, open(r["out_file"], errors="replace").read()[-3000:]))
        return r["fails"]

    def validate(self, tmodule, cfg_tmpl, trace, chunk_events=20000, par=12, label="t"):
        """Split a trace at reset boundaries, validate chunks in parallel.
        Returns (fails:[(case_idx, line_in_case, verdict, input)], n_cases, n_events)."""
        chunks, meta = split_trace(trace, chunk_events, os.path.join(self.work, label + "_chunk"))
        fails = []

        def one(i):
            return i, self.validate_file(tmodule, cfg_tmpl, chunks[i], "%s_%s_v%d" % (tmodule, label, i))

        with cf.ThreadPoolExecutor(max_workers=par) as ex:
            for i, fl in ex.map(one, range(len(chunks))):
                for (ln, verdict) in fl:
                    # map chunk line -> case
                    starts = meta[i]["starts"]  # list of (line_no, case_idx)
                    ci = None
                    for (s, c) in starts:
                        if s <= ln:
                            ci = (s, c)
                        else:
                            break
                    fails.append(dict(chunk=chunks[i], line=ln, case=ci[1], rel=ln - ci[0], verdict=verdict, reset_line=ci[0]))
        ncases = sum(len(m["starts"]) for m in meta)
        nev = sum(m["events"] for m in meta)
        return fails, ncases, nev

    # ------------------------------------------------------------------ family driver
    def conformance(self, label, hmodule, cases_file, tmodule, cfg_tmpl, replay_args=(), chunk_events=20000,
                    sample_n=2, batch_timeout=14400, env=None):
        """cases -> real trace -> TLC validation -> verdicts. Returns number of cases."""
        trace = os.path.join(self.work, label + ".trace.ndjson")
        self._cur = dict(hmodule=hmodule, tmodule=tmodule, cfg_tmpl=cfg_tmpl, replay_args=list(replay_args), env=env)
        p = self.hrun([hmodule, "replay", cases_file, trace] + list(replay_args), timeout=batch_timeout, env=env)
        if p.returncode != 0:
            self.harness_died(label, hmodule, cases_file, p, tmodule, cfg_tmpl, replay_args, env)
            return 0
        m = re.search(r"STATS (\{.*\})", p.stderr or "")
        if m:
            st = json.loads(m.group(1))
            self.cov["prefiltered_equal"] += st.get("equal", 0)
            self.cov["evaluations"] += st.get("compared", 0)
            self.cov.setdefault("requests_on_real_code", 0)
            self.cov["requests_on_real_code"] += st.get("compared", 0)
            if st.get("oracle_checked"):
                self.cov["oracle_crosschecked_with_tlc"] = self.cov.get("oracle_crosschecked_with_tlc", 0) + st["oracle_checked"]
            if st.get("oracle_mismatch"):
                raise Infra("the harness' oracle splitter disagrees with the splits TLC computed on %d cases" % st["oracle_mismatch"])
        fails, ncases, nev = self.validate(tmodule, cfg_tmpl, trace, chunk_events, label=label)
        self.account(trace, ncases, sample_n)
        self.judge(label, hmodule, fails, trace, tmodule, cfg_tmpl, replay_args, env)
        self.cov["families"].append(dict(family=label, cases=ncases, events=nev, rejected_events=len(fails)))
        log("  family %-28s cases=%d events=%d rejected_events=%d" % (label, ncases, nev, len(fails)))
        return ncases

    def account(self, trace, ncases, sample_n):
        self.cov["traces_validated_against_impl"] += ncases
        self.cov["evaluations"] += ncases
        k = 0
        with open(trace) as f:
            cur = None
            for line in f:
                if line.startswith('{"case"') or '"ev":"reset"' in line[:200]:
                    try:
                        e = json.loads(line)
                    except Exception:
                        continue
                    if e.get("ev") != "reset":
                        continue
                    if e.get("nt", True):
                        self.nt_hashes.add(hashlib.md5(json.dumps(e.get("input"), sort_keys=True).encode()).digest()[:8])
                    if k < sample_n and len(self.cov["samples"]) < 12:
                        cur = dict(input=e.get("input"), events=[])
                        self.cov["samples"].append(cur)
                        k += 1
                    else:
                        cur = None
                elif cur is not None and len(cur["events"]) < 12:
                    try:
                        cur["events"].append(json.loads(line))
                    except Exception:
                        pass

    def judge(self, label, hmodule, fails, trace, tmodule, cfg_tmpl, replay_args, env=None):
        """Handle events rejected by layer P: known finding or (after reproduction) violation."""
        by_case = {}
        for f in fails:
            by_case.setdefault((f["chunk"], f["reset_line"]), []).append(f)
        n_repro = 0
        for (chunk, case), fl in sorted(by_case.items(), key=lambda kv: kv[0][1]):
            promote = getattr(self, "promote", set())
            for f in fl:
                if f["verdict"] in promote:
                    f["verdict"] = "bad"        # a verdict class this property owns (e.g. "accept" for C08)
            verdicts = sorted(set(f["verdict"] for f in fl))
            bad = [v for v in verdicts if v == "bad"]
            for v in verdicts:
                if v in OUTSIDE:
                    # judged by another property's check (or no verdict at all): not this property's business
                    self.cov.setdefault("outside_property", {})
                    self.cov["outside_property"][v] = self.cov["outside_property"].get(v, 0) + 1
                    continue
                if v != "bad":
                    self.known_hit[v] = self.known_hit.get(v, 0) + 1
                    self.cov["excused_by_known_finding"] += 1
            if not bad:
                continue
            if n_repro >= 4:
                # enough reproduced examples; remaining rejections are still violations of the same run
                continue
            inp = json.loads(line_of(chunk, case)).get("input")
            n_repro += 1
            ok, detail = False, None
            for attempt in range(3 if getattr(self, "nondeterministic", False) else 1):
                ok, detail = self.reproduce(label, hmodule, inp, tmodule, cfg_tmpl, replay_args, env)
                if ok:
                    break
            if ok:
                self.violation(label, inp, detail)
            else:
                # not a verdict: remembered, turns the run into exit 2 unless a reproduced violation exists
                self.unreproduced.append("rejection of case at line %s in %s did not reproduce: %s" % (case, label, str(detail)[:300]))

    def reproduce(self, label, hmodule, inp, tmodule, cfg_tmpl, replay_args=(), env=None):
        """Re-execute one case alone; True iff layer P rejects it again (verdict bad)."""
        d = tempfile.mkdtemp(prefix="repro-", dir=self.work)
        cf_ = os.path.join(d, "case.jsonl")
        open(cf_, "w").write(json.dumps(inp) + "\n")
        tr = os.path.join(d, "trace.ndjson")
        p = self.hrun([hmodule, "replay", cf_, tr] + list(replay_args), timeout=900, env=env)
        if p.returncode != 0:
            return True, dict(kind="harness-died", rc=p.returncode, stderr=p.stderr[-3000:])
        fl = self.validate_file(tmodule, cfg_tmpl, tr, "%s_repro%d" % (tmodule, self.n_tlc))
        bad = [f for f in fl if f[1] == "bad" or f[1] in getattr(self, "promote", set())]
        if not bad:
            return False, dict(kind="not-reproduced", fails=fl)
        events = [json.loads(x) for x in open(tr)]
        ln = bad[0][0]
        return True, dict(kind="rejected-by-layer-P", line=ln, event=events[ln - 1], trace=events[:ln][-30:])

    def harness_died(self, label, hmodule, cases_file, p, tmodule, cfg_tmpl, replay_args, env=None):
        """The harness process died or hung on a batch: bisect to the single case."""
        log("  harness died on %s (rc=%s): %s" % (label, p.returncode, p.stderr[-600:].replace("\n", " | ")))
        if getattr(self, "fatal_race_is_violation", False) and "fatal error: concurrent map" in (p.stderr or ""):
            # the Go runtime detected unsynchronised map access (not recoverable, not deterministic): a data race
            i = p.stderr.index("fatal error: concurrent map")
            self.violation(label, dict(kind="data-race", gen_seed=self.seed), dict(kind="race-detector-report", report=p.stderr[i:i + 6000]))
            return
        lines = [x for x in open(cases_file) if x.strip()]
        lo, hi = 0, len(lines)
        d = tempfile.mkdtemp(prefix="bisect-", dir=self.work)

        def dies(sub):
            cf_ = os.path.join(d, "c.jsonl")
            open(cf_, "w").writelines(sub)
            q = self.hrun([hmodule, "replay", cf_, os.path.join(d, "t.ndjson")] + list(replay_args),
                          timeout=max(60, 2 * len(sub) // 100), env=env)
            return q.returncode != 0, q
        while hi - lo > 1:
            mid = (lo + hi) // 2
            bad, _ = dies(lines[lo:mid])
            if bad:
                hi = mid
            else:
                bad2, _ = dies(lines[mid:hi])
                if not bad2:
                    raise Infra("harness death on %s does not reproduce under bisection" % label)
                lo = mid
        bad, q = dies(lines[lo:hi])
        bad2, q2 = dies(lines[lo:hi])
        if not (bad and bad2):
            raise Infra("harness death on %s does not reproduce on the single case" % label)
        inp = json.loads(lines[lo])
        self.violation(label, inp, dict(kind="harness-died", rc=q2.returncode, stderr=q2.stderr[-3000:]))
        # validate the rest without the fatal case
        rest = os.path.join(self.work, label + ".rest.jsonl")
        open(rest, "w").writelines(lines[:lo] + lines[lo + 1:])
        if len(lines) > 1:
            self.conformance(label + "_rest", hmodule, rest, tmodule, cfg_tmpl, replay_args, env=env)

    def violation(self, label, inp, detail):
        os.makedirs(os.path.join(VERIF, "replay"), exist_ok=True)
        h = hashlib.sha1(json.dumps(inp, sort_keys=True).encode()).hexdigest()[:12]
        path = os.path.join(VERIF, "replay", "%s-%s.json" % (self.pid, h))
        json.dump(dict(property=self.pid, family=label, case=inp, detail=detail, seed=self.seed, tier=self.tier,
                       how=getattr(self, "_cur", None)),
                  open(path, "w"), indent=1)
        self.violations.append(path)
        log("VIOLATION property=%s replay=%s" % (self.pid, path))

    # ------------------------------------------------------------------ finish
    def finish(self, rule, level="model_checking", extra_assumptions=()):
        for f in self.findings:
            if f["status"] == "open" and self.known_hit.get(f["id"], 0) > 0:
                log("KNOWN-FINDING: property=%s %s: %s (excused events this run: %d)" %
                    (self.pid, f["id"], f["what"], self.known_hit[f["id"]]))
        cov = self.cov
        cov["distinct_nontrivial"] = len(self.nt_hashes)
        cov["rule"] = rule
        cov["known_findings_observed"] = {k: v for k, v in self.known_hit.items()}
        ev = dict(property_id=self.pid, tier=self.tier, seed=self.seed, level=level, coverage=cov,
                  assumptions=list(self.assumptions) + list(extra_assumptions),
                  wall_s=round(time.time() - self.t0, 1), violations=len(self.violations))
        # evidence describes /repo; a run pointed at another tree (mutant / seeded-change testing) must not overwrite it
        evdir = os.path.join(VERIF, "evidence") if os.path.realpath(self.repo) == "/repo" else os.path.join(tempfile.gettempdir(), "verif-evidence-other-tree")
        if not re.match(r"^C\d\d$", self.pid):
            evdir = os.path.join(VERIF, "evidence_extra")      # checks that belong to no listed property (specification growth)
        os.makedirs(evdir, exist_ok=True)
        json.dump(ev, open(os.path.join(evdir, self.pid + ".json"), "w"), indent=1)
        shutil.rmtree(self.work, ignore_errors=True)
        log("%s %s tier=%s seed=%d states=%d traces=%d wall=%.0fs" %
            (self.pid, "VIOLATED" if self.violations else "held", self.tier, self.seed, cov["states"],
             cov["traces_validated_against_impl"], time.time() - self.t0))
        if self.violations:
            return 1
        if self.unreproduced:
            raise Infra("; ".join(self.unreproduced[:3]))
        return 0


# ---------------------------------------------------------------------- helpers
def tla_set(xs):
    return "{" + ", ".join('"%s"' % x for x in xs) + "}"


def line_of(path, n):
    with open(path) as f:
        for i, line in enumerate(f, 1):
            if i == n:
                return line
    return ""


def split_trace(trace, chunk_events, prefix):
    """Split at reset boundaries. Returns (chunk paths, meta[{starts:[(line,case)], events}])."""
    chunks, meta = [], []
    out = None
    n = 0
    cur = None
    with open(trace) as f:
        for line in f:
            is_reset = '"ev":"reset"' in line[:400]
            if out is None or (is_reset and n >= chunk_events):
                if out:
                    out.close()
                p = "%s%d.ndjson" % (prefix, len(chunks))
                chunks.append(p)
                out = open(p, "w")
                cur = dict(starts=[], events=0)
                meta.append(cur)
                n = 0
            n += 1
            cur["events"] += 1
            if is_reset:
                m = re.search(r'"case":(\d+)', line)
                cur["starts"].append((n, int(m.group(1)) if m else -1))
            out.write(line)
    if out:
        out.close()
    return chunks, meta


def case_input(chunk, case):
    with open(chunk) as f:
        for line in f:
            if '"ev":"reset"' in line[:400]:
                e = json.loads(line)
                if e.get("case") == case:
                    return e.get("input")
    raise Infra("case %s not found in %s" % (case, chunk))


def subsample(path, max_cases, seed, run=None):
    """Seeded uniform subsample of a cases file (the TLC run itself stays exhaustive)."""
    import random
    n = sum(1 for _ in open(path))
    if n <= max_cases:
        return path
    rnd = random.Random(seed)
    keep = set(rnd.sample(range(n), max_cases))
    out = path + ".sub"
    with open(path) as f, open(out, "w") as g:
        for i, line in enumerate(f):
            if i in keep:
                g.write(line)
    if run is not None:
        run.cov.setdefault("replay_subsampled", []).append(dict(emitted_by_tlc=n, replayed=max_cases))
    return out


def main_wrap(fn):
    try:
        sys.exit(fn())
    except Infra as e:
        log("INFRA: no verdict: %s" % e)
        sys.exit(2)
