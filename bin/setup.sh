#!/bin/sh
# Offline set-up: check the tools, parse every specification, warm the Go build cache.
set -e
cd "$(dirname "$0")/.."
command -v java >/dev/null && command -v go >/dev/null && command -v python3 >/dev/null
test -f /opt/veriftools/tla/tla2tools.jar
mkdir -p evidence
export GOFLAGS=-mod=mod GOPROXY=off GOSUMDB=off GOTOOLCHAIN=local
T=$(mktemp -d)
cp -r harness "$T/h" && cp /repo/go.sum "$T/h/go.sum" && (cd "$T/h" && go build -o "$T/vh" . ) && echo "harness builds"
cp -r spec "$T/spec"
for f in "$T"/spec/*.tla; do
  (cd "$T/spec" && java -cp /opt/veriftools/tla/tla2tools.jar:/opt/veriftools/tla/CommunityModules-deps.jar tla2sany.SANY "$(basename "$f")" >"$T/sany.out" 2>&1) || { cat "$T/sany.out"; rm -rf "$T"; exit 1; }
done
echo "specifications parse"
rm -rf "$T"
