#!/usr/bin/env python3
"""Binding demonstration: record real traces, corrupt ONE field / drop ONE event, and show that the TLC
validator rejects exactly there (and accepts the untouched trace).  usage: selftest.py"""
import json, os, sys, random
sys.path.insert(0, os.path.dirname(os.path.abspath(__file__)))
import vlib, check
from vlib import Run, log


def record(run, module, gen_args, n=30):
    cases = os.path.join(run.work, module + "_cases.jsonl")
    with open(cases, "w") as fo:
        p = run.hrun([module, "gen", 7, n] + gen_args, stdout=fo)
    assert p.returncode == 0, p.stderr
    trace = os.path.join(run.work, module + "_trace.ndjson")
    p = run.hrun([module, "replay", cases, trace])
    assert p.returncode == 0, p.stderr
    return [json.loads(l) for l in open(trace)]


def validate(run, tmodule, cfg, events, name):
    path = os.path.join(run.work, name + ".ndjson")
    with open(path, "w") as f:
        for e in events:
            f.write(json.dumps(e) + "\n")
    return run.validate_file(tmodule, cfg, path, name)


def main():
    run = Run("C13", "quick", 1)
    run.build_harness()
    run.open_devs = sorted(f["id"] for f in json.load(open(os.path.join(vlib.VERIF, "known_findings.json")))["findings"] if f["status"] == "open")
    results = []
    specs = [
        ("rw", [], "RWTrace", check.RW_TRACE_CFG, lambda e: e.get("ev") == "op" and e["size"] > 0, lambda e: e.__setitem__("size", e["size"] + 1), "size + 1"),
        ("rw", [], "RWTrace", check.RW_TRACE_CFG, lambda e: e.get("ev") == "op" and e["status"] == 200, lambda e: e.__setitem__("status", 201), "status 200 -> 201"),
        ("chain", ["chain"], "ChainTrace", check.CH_TRACE_CFG, lambda e: e.get("e") == "enter" and e["h"] == 1, None, "drop the enter event of handler 1"),
        ("tree", ["prio"], "RouteTreeTrace", check.RT_TRACE_CFG, lambda e: e.get("ev") == "Serve" and e["reg"] > 0 and not e["oskip"], lambda e: e.__setitem__("reg", e["reg"] + 1), "winner + 1"),
        ("tree", ["prio"], "RouteTreeTrace", check.RT_TRACE_CFG, lambda e: e.get("ev") == "AddRoute" and e["accepted"], lambda e: e.__setitem__("accepted", False), "accepted -> rejected"),
        ("inject", [], "InjectTrace", check.INJ_TRACE_CFG, lambda e: e.get("ev") == "invoke" and e["calls"] == 1 and len(e["args"]) > 0, lambda e: e["args"][0].__setitem__("id", e["args"][0]["id"] + 1), "argument id + 1"),
    ]
    for k, (module, gargs, tmod, cfg, pick, mutate, what) in enumerate(specs):
        ev = record(run, module, gargs)
        base = validate(run, tmod, cfg, ev, "st%d_base" % k)
        base_bad = [f for f in base if f[1] == "bad"]
        idx = [i for i, e in enumerate(ev) if pick(e)]
        i = idx[len(idx) // 2]
        ev2 = json.loads(json.dumps(ev))
        if mutate is None:
            del ev2[i]
        else:
            mutate(ev2[i])
        got = validate(run, tmod, cfg, ev2, "st%d_mut" % k)
        # "accept" is the verdict class of registration events (a violation for the check of C08, which owns it)
        new_bad = sorted(set(f[0] for f in got if f[1] in ("bad", "accept")) - set(f[0] for f in base_bad))
        ok = (not base_bad) and len(new_bad) >= 1 and (new_bad[0] == i + 1 or mutate is None)
        results.append(dict(module=module, corruption=what, line=i + 1, untouched_trace_rejections=len(base_bad), rejected_at=new_bad[:3], ok=ok))
        log("selftest %-8s %-34s corrupted line %d -> rejected at %s  %s %s" % (module, what, i + 1, new_bad[:3], "OK" if ok else "FAILED",
                                                                                 "" if ok else [f for f in got if f[0] == i + 1]))
    import shutil
    shutil.rmtree(run.work, ignore_errors=True)
    json.dump(results, open(os.path.join(vlib.VERIF, "selftest", "binding.json"), "w"), indent=1)
    return 0 if all(r["ok"] for r in results) else 1


if __name__ == "__main__":
    vlib.main_wrap(main)
