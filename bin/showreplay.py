#!/usr/bin/env python3
import json,sys
for f in sys.argv[1:]:
    r=json.load(open(f)); c=r['case']
    print('==',f, r['family'])
    if 'H' in c:
        for i,h in enumerate(c['H']):
            rt=h['r']; txt=''.join(('/?' if s['opt'] else '/')+s['t'] for s in rt['segs']) if rt.get('gram',True) else 'RAW:'+rt.get('raw','')
            print('  reg',i+1,h['m'],txt, 'call',h['call'])
        for h in c.get('hops',[]): print('  hop',h)
        print('  via',c.get('via'))
    else:
        print('  case', json.dumps(c)[:600])
    d=r['detail']; e=d.get('event',{})
    print('  ',d['kind'],'line',d.get('line'))
    print('  ',json.dumps({k:v for k,v in e.items() if k not in ('r',)})[:1500])
    if d.get('stderr'): print(d['stderr'][-1500:])
