#!/bin/sh
# Re-confirms every seeded change: scratch copy of the repository, apply the patch, pinned suite must pass,
# the property's quick check must report a VIOLATION (exit 1). One line per change.
# usage: seeded_all.sh [NAME-PREFIX ...]
cd "$(dirname "$0")/.."
SRC=${VP_RUN_REPO:-/repo}
# optional arguments: name prefixes (e.g. "C01 C02") to re-confirm only those changes (several lanes in parallel)
PAT=""
for a in "$@"; do PAT="$PAT seeded/$a*/"; done
[ -z "$PAT" ] && PAT="seeded/*/"
for d in $PAT; do
  n=$(basename $d); p=$(python3 -c "import json;print(json.load(open('$d/meta.json'))['property'])")
  if [ "$(python3 -c "import json;print(json.load(open('$d/meta.json')).get('out_of_scope',False))")" = "True" ]; then echo "$n: out of scope (see meta.json), not run"; continue; fi
  T=$(mktemp -d /tmp/seedrun-XXXX); cp -r $SRC $T/repo; rm -rf $T/repo/.git
  if ! (cd $T/repo && patch -p1 -s < "$OLDPWD/$d/patch.diff" >/dev/null 2>&1); then echo "$n: PATCH DOES NOT APPLY"; rm -rf $T; continue; fi
  b=$(VERIF_REPO=$T/repo python3 bin/baseline.py | head -1)
  VERIF_REPO=$T/repo python3 bin/check.py $p --tier quick > $T/log 2>&1; rc=$?
  echo "$n: property=$p check_rc=$rc ($(grep -cE '^VIOLATION' $T/log) violations) :: $b"
  rm -rf $T
done
