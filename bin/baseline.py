#!/usr/bin/env python3
"""Runs the repository's pinned suite with the verif tag OFF and checks that every test in
BASELINE.json's stable_pass still passes. Exit 0 iff all of them pass."""
import json, os, subprocess, sys
repo = os.environ.get("VERIF_REPO", "/repo")
base = json.load(open("/root/.vp/BASELINE.json"))
env = dict(os.environ, GOFLAGS="-mod=mod", GOPROXY="off", GOSUMDB="off", GOTOOLCHAIN="local")
p = subprocess.run(["go", "test", "-json", "-vet=off", "-count=1", "-timeout", "25m", "./..."], cwd=repo, env=env,
                   capture_output=True, text=True)
if "--json" in sys.argv:
    sys.stdout.write(p.stdout)       # the raw `go test -json` stream, for whoever wants to parse it
res = {}
for line in p.stdout.splitlines():
    try:
        e = json.loads(line)
    except Exception:
        continue
    if e.get("Test") and e.get("Action") in ("pass", "fail", "skip"):
        res[e["Package"] + "::" + e["Test"]] = e["Action"]
bad = [t for t in base["stable_pass"] if res.get(t) != "pass"]
print("baseline: %d/%d stable tests pass" % (len(base["stable_pass"]) - len(bad), len(base["stable_pass"])))
for t in bad[:20]:
    print("  NOT PASSING:", t, res.get(t))
sys.exit(1 if bad else 0)
